"""C13 - third-core -> full-core conversion multiplies the model by three (centre once) and is undone exactly;
adding then removing edge assemblies is a no-op.

Workload: third-core hex reactors built from generated blueprints (vlib.gen) with an explicit policy for the cells on the
0-degree symmetry line, holes, optionally no centre assembly; random block / assembly parameters of every ParamLocation
class (scalars, 6-vectors, multigroup arrays and lists, pin arrays) and composition edits, assigned before and between
conversions; random legal histories of
    ThirdCoreHexToFullCoreChanger.convert / restorePreviousGeometry (fresh and re-used changers, Core.growToFullCore),
    EdgeAssemblyChanger.addEdgeAssemblies / removeEdgeAssemblies (fresh and re-used changers),
    the documented no-ops (convert on a full core, restore with nothing to restore, add/remove edge on a full core).

Oracles (all written from the property statement, none calls the code being judged for its expected value):
  * cells after convert == closure of the cells before under rotation of *coordinates* by 120/240 degrees (closed-form hex
    geometry of checks.c07, rotation of checks.c08);
  * every added assembly is located at R(120k) of exactly one source assembly, equals it in every parameter, dimension and
    number density except the rotated quantities, which are rotated by the angle measured between the two cell centres
    (checks.c08.judge_rotation), shares no node with any other assembly and has its own name / number;
  * counts, getMass(nuclide), getVolume and the total of every volume-integrated block parameter are 3x a reference taken
    from the third-core state (armi's own third-core getters where no edge assemblies are present, and a naive leaf walk
    that weights the centre once and every other non-edge assembly three times); for a third core that carries its edge
    assemblies getMass / getVolume of that state x3 are compared as well (both halves cut by the symmetry lines);
  * obs(core) after restorePreviousGeometry / after add-edge -> remove-edge equals the reference observation of the last
    edge-free third-core state (patched with the harness' own parameter assignments made since).
  * ambient: after every Core.add / Core.removeAssembly (also the ones armi performs itself while building and converting)
    the lookup tables equal what the child list says.
  * EdgeAssemblyChanger.scaleParamsRelatedToSymmetry in the edge-carrying state: the harness writes half values of
    volume-integrated scalars and multigroup flux lists on both twins (paired by rotating the cell centre by 120 degrees, not
    by armi's own ordering); afterwards the block on the 0-degree line holds the element-wise sum of the two stored halves, its
    scalar flux is that sum over the volume of the whole hexagon (leaf component volumes), nothing else changed, and the
    following removeEdgeAssemblies gives the reference state with exactly those sums.
  * parameters written while the core is full (the production order: convert, solve, restore): after restorePreviousGeometry
    every original holds what was written, the centre assembly's volume-integrated values divided by 3.
  * core.zones (a location lookup) after restore / remove-edge lists the locations it listed before.
"""
import math
import random

from checks.c07 import hex_xy
from checks.c08 import judge_rotation, rot

PROP = "C13"
LEVEL = "exploration"
RULE = (
    "third-core hex reactors from generated blueprints (flats-up, 25 % corners-up): rings 2-5 (quick) / 2-7 (thorough), 1-3 assembly designs of 1-3 pin-type blocks, "
    "hole probability in {0,.15,.35}, policy for the 0-degree symmetry line in {as generated, none, all, ring-3 cell missing, only ring-3 cell}, "
    "centre assembly absent in ~5 % of the cores, zones defined on 30 %; parameters of every location class assigned to random subsets of blocks before and between "
    "conversions; 4-9 operations per core drawn from {convert(new changer | re-used changer | Core.growToFullCore), restorePreviousGeometry, "
    "addEdgeAssemblies(new | re-used changer), removeEdgeAssemblies(adding changer | new changer), assign (also while the core is full), composition edit, "
    "scaleParamsRelatedToSymmetry on the edge-carrying core (halves of 1-5 volume-integrated scalars and 0-3 multigroup flux lists/arrays written on both twins, equal halves of "
    "the current value or two unrelated values; all parameters | explicit subset), documented no-ops}. "
    "A case = one operation on one core followed by its oracle; distinct = (operation, state before, rings, line policy, centre present, "
    "what kinds of values were assigned since the last conversion); non-trivial = the core has at least one assembly besides the centre."
)
TOLERANCES = {
    "x3_rel": 1e-10,            # totals after convert vs 3 x third-core reference (recomputed sums)
    "restore_scaled_rel": 1e-12,  # centre-assembly volume-integrated values after x3 then /3 (two roundings)
    "derived_rel": 1e-12,       # mass / volume recomputed after a restore
    "coord_rel_to_pitch": 1e-9,
    "copy_mass_rel": 1e-12,
    "edge_sum_rel": 1e-14,      # lower + upper half of a stored value: one addition (exact up to the order of the operands)
    "edge_flux_rel": 1e-9,      # sum(mgFlux) / volume of the whole hexagon: a recomputed quantity
}
EXHAUSTIVE = {"quick": False, "thorough": False}
EXHAUSTIVE_PART = "none (sampled cores and histories)"
FLOORS = {
    "quick": {"convert.locations": 100, "convert.copies": 1400, "convert.totals": 100, "restore.obs": 100, "edge-roundtrip.obs": 25,
              "addEdge.originals": 80, "noop.obs": 90, "ambient.lookups": 4000, "independence": 280,
              "scaleEdge.sums": 15, "scaleEdge.rest": 15, "restore.centre-thirds": 150, "restore.zones": 30, "edge-roundtrip.zones": 8},
    "thorough": {"convert.locations": 1000, "convert.copies": 14000, "convert.totals": 1000, "restore.obs": 1000, "edge-roundtrip.obs": 250,
                 "addEdge.originals": 800, "noop.obs": 900, "ambient.lookups": 40000, "independence": 2800,
                 "scaleEdge.sums": 150, "scaleEdge.rest": 150, "restore.centre-thirds": 1500, "restore.zones": 300, "edge-roundtrip.zones": 80},
}
TIMEOUT = {"quick": 900, "thorough": 7200}
ASSUMPTIONS = [
    "closed-form hex cell centres (checks.c07.hex_xy) and the 2x2 rotation are the geometric reference; armi's grid is not consulted for expected cells",
    "block parameter location classes are read from armi's parameter definitions (metadata, not behaviour under test)",
]

_CTX = {"rec": None, "w": None}
_EVER_ASSIGNED = set()  # block parameter names the harness has written so far in this process (armi's assigned-flags live on the definitions)


def plan(tier, seed):
    q = tier == "quick"
    out = []
    for i in range(16):
        out.append({"name": "hist%02d" % i, "n": 12 if q else 120, "maxrings": 5 if q else 7, "big": i % 4 == 0})
    return out


def rc(a, b, rel, absol=0.0):
    return abs(a - b) <= rel * max(abs(a), abs(b)) + absol


# ----------------------------------------------------------------------------- independent geometry
def line_of(i, j, cu=False):
    """Which symmetry line of the third-core sector the centre of cell (i,j) lies on - from its polar angle only."""
    if (i, j) == (0, 0):
        return "centre"
    x, y = hex_xy(i, j, 1.0, cu)
    ang = (math.degrees(math.atan2(y, x)) - (30.0 if cu else 0.0)) % 360.0
    if min(ang, 360.0 - ang) < 1e-6:
        return "0"
    if abs(ang - 120.0) < 1e-6:
        return "120"
    return None


class Cells:
    """coordinates -> cell lookup for a hexagon of `rings` rings (closed form)."""

    def __init__(self, rings, cu=False):
        self.cu = cu
        self.tab = {}
        n = rings + 2
        for i in range(-n, n + 1):
            for j in range(-n, n + 1):
                x, y = hex_xy(i, j, 1.0, cu)
                self.tab[(round(x * 1e6), round(y * 1e6))] = (i, j)

    def image(self, i, j, deg):
        x, y = hex_xy(i, j, 1.0, self.cu)
        rx, ry = rot(x, y, deg)
        return self.tab.get((round(rx * 1e6), round(ry * 1e6)))

    def closure(self, cells):
        out = set()
        for (i, j) in cells:
            for d in (0, 120, 240):
                im = self.image(i, j, d)
                if im is None:
                    raise RuntimeError("harness: rotated centre is not a cell centre")
                out.add(im)
        return out

    @staticmethod
    def steps(src, dst, cu=False):
        """Number of 60-degree counter-clockwise steps from cell src to cell dst, measured on the cell centres."""
        x0, y0 = hex_xy(src[0], src[1], 1.0, cu)
        x1, y1 = hex_xy(dst[0], dst[1], 1.0, cu)
        d = (math.degrees(math.atan2(y1, x1) - math.atan2(y0, x0))) % 360.0
        k = round(d / 60.0)
        if abs(d - 60.0 * k) > 1e-6:
            return None
        return k % 6


# ----------------------------------------------------------------------------- core generation
def first_third_cells(rings):
    from vlib import gen

    return [c for c in gen.hex_cells(rings) if gen.in_first_third(*c)]


def make_core_spec(rng, maxrings, big):
    from vlib import gen

    if big:
        rings = rng.randint(max(2, maxrings - 2), maxrings)
    else:
        rings = rng.choice([2, 2, 3, 3, 3, 4, 4, 5][: 6 + (maxrings > 4) * 2])
    holes = rng.choice([0.0, 0.0, 0.15, 0.35])
    nblocks = rng.randint(1, 3)
    cu = rng.random() < .25
    spec = gen.core_spec(rng, rings=rings, symmetry="third periodic", ndesigns=rng.randint(1, 3), holes=holes, nblocks=nblocks,
                         geom="hex_corners_up" if cu else "hex")
    cont = spec["grids"]["core"]["contents"]
    designs = sorted(set(cont.values()))
    policy = rng.choice(["asis", "asis", "none", "all", "all", "ring3-missing", "only-ring3"])
    for c in first_third_cells(rings):
        if line_of(*c) != "0":
            continue
        inner = c == (2, -1)
        if policy == "none" or (policy == "ring3-missing" and inner) or (policy == "only-ring3" and not inner):
            cont.pop(c, None)
        elif policy == "all" or (policy == "ring3-missing" and not inner) or (policy == "only-ring3" and inner):
            cont.setdefault(c, rng.choice(designs))
    centre = rng.random() >= 0.05
    if not centre and len(cont) > 1:
        cont.pop((0, 0), None)
    else:
        centre = True
    # a few cores whose only cells sort after the centre (no negative index): the centre is then the first assembly visited
    if rng.random() < 0.2:
        for c in list(cont):
            if (c[0] < 0 or c[1] < 0) and len(cont) > 2:
                cont.pop(c)
    meta = {"rings": rings, "cornersUp": cu, "policy": policy, "centre": centre, "holes": holes, "nblocks": nblocks,
            "cells": sorted(cont), "designs": {"%d,%d" % k: v for k, v in sorted(cont.items())}}
    return spec, meta


# ----------------------------------------------------------------------------- observation
def nv(v, depth=0):
    """Normal form of a stored value: exact, type-preserving enough to tell list from ndarray."""
    import numpy as np

    if v is None or isinstance(v, (bool, int, str)):
        return v
    if isinstance(v, float):
        return v if v == v else "nan"
    if isinstance(v, np.generic):
        return nv(v.item(), depth + 1)
    if isinstance(v, np.ndarray):
        if v.dtype == object:
            return ("nd-object", v.shape, tuple(nv(x, depth + 1) for x in v.ravel().tolist()))
        return ("nd", v.dtype.kind, v.shape, tuple(v.ravel().tolist()))
    if type(v).__name__ == "_DimensionLink":
        return ("link", v[0].name, v[1])
    if isinstance(v, (list, tuple)):
        return (type(v).__name__, tuple(nv(x, depth + 1) for x in v))
    if isinstance(v, dict):
        return ("dict", tuple(sorted((str(k), nv(x, depth + 1)) for k, x in v.items())))
    if hasattr(v, "name") and hasattr(v, "value") and type(v).__name__ != "Flags":
        return ("enum", str(v))
    if type(v).__name__ == "Flags":
        try:
            return ("flags", int(v))
        except Exception:
            return ("flags", str(v))
    return ("obj", type(v).__name__, str(v)[:80])


# Component.p.volume is a documented lazy cache ("not set until getVolume is called; do not access directly"): observed through getVolume()
COMPONENT_CACHE_PARAMS = {"volume"}


def params_of(o, skip=()):
    out = {}
    for pd in o.p.paramDefs:
        if pd.name in skip:
            continue
        try:
            out[pd.name] = nv(o.p[pd.name])
        except Exception as e:  # parameter without default that was never set
            out[pd.name] = ("unset", type(e).__name__)
    return out


def ij(a):
    idx = a.spatialLocator.getCompleteIndices()
    return (int(idx[0]), int(idx[1]))


def obs(core, seen_names=(), seen_nums=(), rings=None):
    """Everything the property calls 'the state': assemblies by place with all parameters down to components,
    symmetry, and how the lookups resolve."""
    o = {"symmetry": str(core.symmetry), "gridSymmetry": str(core.spatialGrid.symmetry), "isFullCore": bool(core.isFullCore),
         "powerMultiplier": core.powerMultiplier, "geomType": str(core.geomType), "n": len(core)}
    assems = {}
    for a in list(core):
        key = ij(a)
        ent = {"id": id(a), "name": a.getName(), "num": a.getNum(), "label": a.getLocation(), "p": params_of(a), "blocks": [],
               "kAxial": [tuple(int(x) for x in b.spatialLocator.getCompleteIndices()) for b in a]}
        for b in a:
            ent["blocks"].append({
                "id": id(b), "name": b.getName(), "p": params_of(b), "height": b.getHeight(), "symfac": b.getSymmetryFactor(), "area": b.getArea(),
                "comps": [{"id": id(c), "name": c.name, "type": type(c).__name__, "material": c.material.name, "p": params_of(c, COMPONENT_CACHE_PARAMS),
                           "volume": c.getVolume()} for c in b],
            })
        if key in assems:
            assems[key] = {"DUPLICATE": [assems[key], ent]}
        else:
            assems[key] = ent
    o["assems"] = assems
    o["order"] = [a.getName() for a in core]
    lk = {}
    lk["childrenByLocator"] = {tuple(int(x) for x in loc.getCompleteIndices()): (v.getName(), id(v)) for loc, v in core.childrenByLocator.items()}
    lk["assembliesByName"] = {k: (v.getName(), id(v)) for k, v in core.assembliesByName.items()}
    lk["blocksByName"] = {k: (v.getName(), id(v)) for k, v in core.blocksByName.items()}
    byloc = {}
    R = (rings or core.numRings) + 1
    for ring in range(1, R + 1):
        for pos in range(1, (6 * (ring - 1) if ring > 1 else 1) + 1):
            label = "%03d-%03d" % (ring, pos)
            try:
                a = core.getAssemblyWithStringLocation(label)
                byloc[label] = None if a is None else (a.getName(), id(a))
            except Exception as e:
                byloc[label] = ("raises", type(e).__name__)
    lk["getAssemblyWithStringLocation"] = byloc
    byname = {}
    for nme in sorted(set(seen_names) | set(o["order"])):
        try:
            a = core.getAssemblyByName(nme)
            byname[nme] = (a.getName(), id(a))
        except KeyError:
            byname[nme] = ("raises", "KeyError")
    lk["getAssemblyByName"] = byname
    bynum = {}
    for n in sorted(set(seen_nums) | {e["num"] for e in assems.values() if "num" in e}):
        a = core.getAssemblyWithAssemNum(n)
        bynum[n] = None if a is None else (a.getName(), id(a))
    lk["getAssemblyWithAssemNum"] = bynum
    o["lookups"] = lk
    return o


def derived(core, every_nuclide=True):
    """core.getMass per nuclide (every nuclide for the x3 oracle; a fixed spread of them for the cheaper restore comparison)."""
    nucs = sorted(core.getNuclides())
    if not every_nuclide and len(nucs) > 6:
        nucs = nucs[:2] + nucs[len(nucs) // 2: len(nucs) // 2 + 2] + nucs[-2:]
    return {"mass": dict(zip(nucs, [core.getMass(n) for n in nucs])), "volume": core.getVolume(), "massTotal": core.getMass()}


def vi_names(core):
    from armi.reactor.parameters import ParamLocation

    return list(core.getFirstBlock().p.paramDefs.atLocation(ParamLocation.VOLUME_INTEGRATED).names)


def loc_class(b, name):
    try:
        return str(b.p.paramDefs[name].location).replace("ParamLocation.", "")
    except Exception:
        return "?"


def as_vec(v):
    """Numeric content of a stored value as a flat list of floats (None -> None)."""
    import numpy as np

    if v is None:
        return None
    try:
        return [float(x) for x in np.asarray(v, dtype=float).ravel()]
    except Exception:
        return None


def diff_obs(ref, got, vi, centre_scaled=True, limit=6):
    """List of (category, path, expected, observed). Values compare exactly; the centre assembly's volume-integrated block
    parameters (scaled by 3 and back by armi) compare to TOLERANCES['restore_scaled_rel']."""
    out = []

    def add(cat, path, a, b):
        if len(out) < limit:
            out.append((cat, path, a, b))

    for k in ("symmetry", "gridSymmetry", "isFullCore", "powerMultiplier", "geomType", "n"):
        if ref[k] != got[k]:
            add("symmetry" if k != "n" else "assembly-count", k, ref[k], got[k])
    ra, ga = ref["assems"], got["assems"]
    if set(ra) != set(ga):
        add("assembly-set", "cells", sorted(set(ra) - set(ga)), sorted(set(ga) - set(ra)))
    for cell in sorted(set(ra) & set(ga)):
        a, b = ra[cell], ga[cell]
        if "DUPLICATE" in a or "DUPLICATE" in b:
            add("assembly-set", "two assemblies at %s" % (cell,), None, None)
            continue
        if a["id"] != b["id"] or a["name"] != b["name"] or a["num"] != b["num"]:
            add("assembly-identity", "cell %s" % (cell,), (a["name"], a["num"]), (b["name"], b["num"]))
            continue
        if a["label"] != b["label"] or a["kAxial"] != b["kAxial"]:
            add("assembly-place", "cell %s" % (cell,), a["label"], b["label"])
        for pn, pv in a["p"].items():
            if b["p"].get(pn) != pv:
                add("assembly-param/%s" % pn, "cell %s p.%s" % (cell, pn), pv, b["p"].get(pn))
        if len(a["blocks"]) != len(b["blocks"]):
            add("block-list", "cell %s" % (cell,), len(a["blocks"]), len(b["blocks"]))
            continue
        centre = cell == (0, 0)
        for kb, (x, y) in enumerate(zip(a["blocks"], b["blocks"])):
            if x["id"] != y["id"] or x["name"] != y["name"]:
                add("block-identity", "cell %s block %d" % (cell, kb), x["name"], y["name"])
                continue
            if x["height"] != y["height"]:
                add("block-height", "cell %s block %d" % (cell, kb), x["height"], y["height"])
            if x["symfac"] != y["symfac"]:
                add("block-symmetry-factor", "cell %s block %d" % (cell, kb), x["symfac"], y["symfac"])
            if x["area"] != y["area"]:  # Block.getArea caches a value that has the symmetry factor folded in
                add("block-area", "cell %s block %d" % (cell, kb), x["area"], y["area"])
            for pn, pv in x["p"].items():
                qv = y["p"].get(pn)
                if qv == pv:
                    continue
                where = "centre" if centre else "off-centre"
                if centre and centre_scaled and pn in vi:
                    va, vb = _numeric(pv), _numeric(qv)
                    if va is not None and vb is not None and len(va) == len(vb) and all(rc(p_, q_, TOLERANCES["restore_scaled_rel"], 1e-300) for p_, q_ in zip(va, vb)):
                        if _kind(pv) != _kind(qv):
                            add("block-param-type/VOLUME_INTEGRATED/%s" % where, "cell %s block %d p.%s" % (cell, kb, pn), _kind(pv), _kind(qv))
                        continue
                add("block-param/%s/%s" % ("VOLUME_INTEGRATED" if pn in vi else "other", where), "cell %s block %d p.%s" % (cell, kb, pn), pv, qv)
            if x["comps"] != y["comps"]:
                for cx, cy in zip(x["comps"], y["comps"]):
                    if cx != cy:
                        bad = [pn for pn in cx["p"] if cx["p"][pn] != cy["p"].get(pn)]
                        add("component", "cell %s block %d comp %s" % (cell, kb, cx["name"]), bad[:4], None)
                        break
    for which in ref["lookups"]:
        if ref["lookups"][which] != got["lookups"][which]:
            r_, g_ = ref["lookups"][which], got["lookups"][which]
            # names / numbers first seen after the reference was taken did not exist then: they resolved to nothing
            dflt = {"getAssemblyByName": ("raises", "KeyError"), "getAssemblyWithAssemNum": None}.get(which, "<absent>")
            bad = [k for k in set(r_) | set(g_) if r_.get(k, dflt) != g_.get(k, dflt)]
            if bad:
                add("lookup/%s" % which, "keys %s" % sorted(map(str, bad))[:5], [r_.get(k, dflt) for k in bad[:3]], [g_.get(k, dflt) for k in bad[:3]])
    return out


def third_of(v):
    """a stored full-core value of the centre assembly as the third core holds it (lists stay lists)"""
    if type(v) is list:
        return [x / 3 for x in v]
    return v / 3


def _numeric(n):
    """flat floats out of a normal form (scalar, nd, list)"""
    if isinstance(n, bool) or n is None:
        return None
    if isinstance(n, (int, float)):
        return [float(n)]
    if isinstance(n, tuple) and n and n[0] == "nd":
        return [float(x) for x in n[3]]
    if isinstance(n, tuple) and n and n[0] in ("list", "tuple"):
        out = []
        for x in n[1]:
            s = _numeric(x)
            if s is None:
                return None
            out.extend(s)
        return out
    return None


def _kind(n):
    if isinstance(n, tuple) and n:
        return n[0]
    return type(n).__name__


# ----------------------------------------------------------------------------- ambient lookup monitor
def lookups_ok(core, rec, w, where):
    """Lookup tables of the core against its child list."""
    if core.spatialGrid is None:
        return
    rec.hit("ambient.lookups")
    kids = list(core)
    by_loc = {}
    for a in kids:
        if a.parent is not core:
            rec.violation("ambient/child-parent", "%s: child %s has parent %r" % (where, a.getName(), a.parent), w)
        if a.spatialLocator is None or a.spatialLocator.grid is not core.spatialGrid:
            rec.violation("ambient/child-locator-grid", "%s: locator of %s is not on the core grid" % (where, a.getName()), w)
            continue
        k = tuple(int(x) for x in a.spatialLocator.getCompleteIndices())
        if k in by_loc:
            rec.violation("ambient/two-assemblies-one-cell", "%s: %s and %s both at %s" % (where, by_loc[k].getName(), a.getName(), k), w)
        by_loc[k] = a
    got = {}
    for loc, a in core.childrenByLocator.items():
        got[tuple(int(x) for x in loc.getCompleteIndices())] = a
        if loc.grid is not core.spatialGrid:
            rec.violation("ambient/childrenByLocator-foreign-key", "%s: key %s is a locator of another grid" % (where, loc), w)
    if set(got) != set(by_loc) or any(got[k] is not by_loc[k] for k in got):
        stale = sorted(k for k in got if k not in by_loc or got[k] is not by_loc[k])
        missing = sorted(k for k in by_loc if k not in got)
        rec.violation("ambient/childrenByLocator", "%s: childrenByLocator differs from {child.spatialLocator: child}: stale %s missing %s" % (where, stale[:5], missing[:5]), w)
    names = {}
    for a in kids:
        if a.getName() in names:
            rec.violation("ambient/duplicate-assembly-name", "%s: two children named %s" % (where, a.getName()), w)
        names[a.getName()] = a
    sfp = getattr(core.parent, "excore", {}).get("sfp") if core.parent is not None else None
    if getattr(core, "_trackAssems", False) and sfp is not None:
        for a in sfp:  # tracked discharged assemblies stay in the tables (none of the C13 operations discharges, purges must not land here)
            names.setdefault(a.getName(), a)
    abn = core.assembliesByName
    if set(abn) != set(names) or any(abn[k] is not names[k] for k in abn):
        rec.violation("ambient/assembliesByName", "%s: assembliesByName differs from the child list: stale %s missing %s" % (
            where, sorted(k for k in abn if k not in names or abn[k] is not names[k])[:5], sorted(k for k in names if k not in abn)[:5]), w)
    bnames = {}
    for a in kids:
        for b in a:
            if b.getName() in bnames:
                rec.violation("ambient/duplicate-block-name", "%s: two blocks named %s" % (where, b.getName()), w)
            bnames[b.getName()] = b
    if getattr(core, "_trackAssems", False) and sfp is not None:
        for a in sfp:
            for b in a:
                bnames.setdefault(b.getName(), b)
    bbn = core.blocksByName
    if set(bbn) != set(bnames) or any(bbn[k] is not bnames[k] for k in bbn):
        rec.violation("ambient/blocksByName", "%s: blocksByName differs from the blocks of the children: stale %s missing %s" % (
            where, sorted(k for k in bbn if k not in bnames or bbn[k] is not bnames[k])[:5], sorted(k for k in bnames if k not in bbn)[:5]), w)
    nums = [a.getNum() for a in kids]
    if len(set(nums)) != len(nums):
        rec.violation("ambient/duplicate-assembly-number", "%s: assembly numbers repeat: %s" % (where, sorted(n for n in set(nums) if nums.count(n) > 1)[:5]), w)


def install_hooks():
    from armi.reactor import cores
    from vlib import hooks

    def post_add(tok, res, a, kw):
        if _CTX["rec"] is not None and _CTX.get("on"):
            lookups_ok(a[0], _CTX["rec"], _CTX["w"], "after Core.add")

    def post_rm(tok, res, a, kw):
        if _CTX["rec"] is not None and _CTX.get("on"):
            lookups_ok(a[0], _CTX["rec"], _CTX["w"], "after Core.removeAssembly")

    hooks.wrap(cores.Core, "add", post=post_add)
    hooks.wrap(cores.Core, "removeAssembly", post=post_rm)


# ----------------------------------------------------------------------------- independence of assemblies
def nodes_of(a):
    yield "assembly", a
    yield "assembly.p", a.p
    yield "assembly.spatialLocator", a.spatialLocator
    if a.spatialGrid is not None:
        yield "assembly.spatialGrid", a.spatialGrid
    for b in a:
        yield "block", b
        yield "block.p", b.p
        if b.spatialLocator is not None:
            yield "block.spatialLocator", b.spatialLocator
        if b.spatialGrid is not None:
            yield "block.spatialGrid", b.spatialGrid
        for c in b:
            yield "component", c
            yield "component.p", c.p
            yield "component.material", c.material
            if c.spatialLocator is not None:
                yield "component.spatialLocator", c.spatialLocator
            nd = c.p.numberDensities
            if nd is not None:
                yield "component.numberDensities", nd


def mutable_values(a):
    """Mutable parameter values (arrays, lists, dicts) of the blocks and the assembly: a copy must not alias them."""
    import numpy as np

    for o in [a] + list(a):
        for pd in o.p.paramDefs:
            try:
                v = o.p[pd.name]
            except Exception:
                continue
            if isinstance(v, (np.ndarray, list, dict)):
                yield "%s.p.%s" % (type(o).__name__, pd.name), v


def independence(core, rec, w, where):
    rec.hit("independence")
    owner = {}
    for a in core:
        for kind, o in nodes_of(a):
            prev = owner.get(id(o))
            if prev is not None and prev[0] is not a:
                rec.violation("%s/shared-node/%s" % (where, kind), "%s of %s (%s) is the same object as one of %s (%s)" % (
                    kind, a.getName(), a.getLocation(), prev[0].getName(), prev[0].getLocation()), w)
                return
            owner[id(o)] = (a, kind)
        for kind, o in mutable_values(a):
            prev = owner.get(id(o))
            if prev is not None and prev[0] is not a:
                rec.violation("%s/shared-parameter-value/%s" % (where, kind.split(".p.")[0]), "%s of %s is the same object as %s of %s" % (kind, a.getName(), prev[1], prev[0].getName()), w)
                return
            owner[id(o)] = (a, kind)
        # dimension links must stay inside the block
        for b in a:
            mine = {id(c) for c in b}
            for c in b:
                for dn in c.DIMENSION_NAMES:
                    v = c.p[dn]
                    if type(v).__name__ == "_DimensionLink" and id(v[0]) not in mine:
                        rec.violation("%s/dimension-link-leaves-block" % where, "%s.%s of block %s links to a component of another block" % (c.name, dn, b.getName()), w)
                        return


# ----------------------------------------------------------------------------- rotation snapshot (shape of checks.c08.snapshot, robust to blocks without pin grid)
def snap_rot(b):
    import numpy as np
    from armi.reactor import grids
    from armi.reactor.parameters import ParamLocation

    locs = []
    for c in b:
        sl = c.spatialLocator
        try:
            if isinstance(sl, grids.MultiIndexLocation):
                locs.append(("multi", [tuple(l_.getLocalCoordinates()) for l_ in sl]))
            elif isinstance(sl, grids.CoordinateLocation):
                locs.append(("coord", [tuple(sl.getLocalCoordinates())]))
            elif isinstance(sl, grids.IndexLocation) and sl.grid is not None:
                locs.append(("single", [tuple(sl.getLocalCoordinates())]))
            else:
                locs.append(("none", []))
        except Exception:
            locs.append(("none", []))
    names = b.p.paramDefs.atLocation(ParamLocation.CORNERS).names + b.p.paramDefs.atLocation(ParamLocation.EDGES).names
    vec = {}
    for n in names:
        v = b.p[n]
        vec[n] = (type(v).__name__, None if v is None else (np.asarray(v, dtype=float).tolist() if isinstance(v, (list, np.ndarray)) else v))
    pins = []
    if b.spatialGrid is not None:
        try:
            pins = [tuple(p) for p in b.getPinCoordinates()]
        except Exception:
            pins = []
    return {"locs": locs, "vec": vec, "disp": (b.p.displacementX, b.p.displacementY), "orient": [float(x) for x in b.p.orientation], "pins": pins}


ROTATED_BLOCK_PARAMS = {"orientation", "displacementX", "displacementY"}
# parameters of a copy that name it or record its own insertion into the core
OWN_BLOCK_PARAMS = {"serialNum", "assemNum"}
OWN_ASSEM_PARAMS = {"serialNum", "assemNum", "chargeTime", "chargeCycle", "chargeFis", "chargeBu", "numMoves", "daysSinceLastMove", "dischargeTime"}


def boundary_names(b):
    from armi.reactor.parameters import ParamLocation

    return set(b.p.paramDefs.atLocation(ParamLocation.CORNERS).names) | set(b.p.paramDefs.atLocation(ParamLocation.EDGES).names)


# ----------------------------------------------------------------------------- parameter assignment
SKIP_BLOCK = {"zbottom", "ztop", "z", "height", "heightBOL", "assemNum", "nPins", "axExtenNodeHeight", "displacementX", "displacementY", "topIndex"}
VI_ARRAYS = ["mgFlux", "adjMgFlux", "lastMgFlux", "mgFluxGamma", "mgFluxSK"]
AVG_ARRAYS = ["mgNeutronVelocity", "chi", "extSrc", "axialPowerProfile"]
PIN_ARRAYS = ["linPowByPin", "linPowByPinNeutron", "linPowByPinGamma", "percentBuByPin"]
ASSEM_FLOATS = ["arealPd", "buLimit", "kInf", "maxDpaPeak", "maxPercentBu", "THdeltaPTotal", "THcoolantOutletT", "THmassFlowRate", "crCurrentElevation"]


def catalog(b):
    """Assignable block parameters per location class, from armi's definitions."""
    cat = {}
    for pd in b.p.paramDefs:
        if pd.name in SKIP_BLOCK or pd.name == "serialNum":
            continue
        lc = str(pd.location).replace("ParamLocation.", "")
        if isinstance(pd.default, float) and not isinstance(pd.default, bool):
            cat.setdefault(lc, []).append(pd.name)
    return cat


def nice_float(rng):
    r = rng.random()
    if r < .1:
        return float(rng.randint(1, 9))
    if r < .2:
        return rng.choice([0.1, 0.3, 1e-30, 3e15, 1.0 / 3.0, 7.0])
    return 10 ** rng.uniform(-3, 6) * rng.choice([1, 1, 1, -1])


def assign_params(rng, core, tag):
    """Assign a random selection of parameters on a random selection of blocks / assemblies. Returns (list of
    (cell, blockIndex or None, name, value), summary of kinds)."""
    import numpy as np

    assems = list(core)
    b0 = core.getFirstBlock()
    cat = catalog(b0)
    kinds = set()
    done = []
    ng = rng.choice([1, 2, 4])
    scope = rng.choice(["all", "all", "some", "centre+some"])

    def targets():
        bl = [(a, k, b) for a in assems for k, b in enumerate(a)]
        if scope == "all":
            return bl
        sel = [t for t in bl if rng.random() < .5]
        if scope == "centre+some":
            sel += [t for t in bl if ij(t[0]) == (0, 0) and t not in sel]
        return sel or bl[:1]

    picks = []
    vi_scalar = cat.get("VOLUME_INTEGRATED", [])
    for nme in rng.sample(vi_scalar, min(len(vi_scalar), rng.randint(1, 5))):
        picks.append((nme, "vi-scalar"))
    if "power" in vi_scalar and rng.random() < .6:
        picks.append(("power", "vi-scalar"))
    for nme in rng.sample(VI_ARRAYS, rng.randint(0, 3)):
        picks.append((nme, rng.choice(["vi-array", "vi-array", "vi-list"])))
    for lc in ("AVERAGE", "MAX", "TOP", "BOTTOM"):
        names = cat.get(lc, [])
        for nme in rng.sample(names, min(len(names), rng.randint(0, 3))):
            picks.append((nme, "scalar-" + lc))
    for nme in rng.sample(sorted(boundary_names(b0)), rng.randint(0, 4)):
        picks.append((nme, rng.choice(["vec6-list", "vec6-array", "vec6-table"])))  # table: one row per corner/edge (e.g. x group)
    for nme in rng.sample(AVG_ARRAYS, rng.randint(0, 2)):
        picks.append((nme, "avg-array"))
    for nme in rng.sample(PIN_ARRAYS, rng.randint(0, 2)):
        picks.append((nme, "pin-array"))
    if rng.random() < .4:
        picks.append(("displacementX", "displacement"))
        picks.append(("displacementY", "displacement"))
    seen = set()
    for nme, kind in picks:
        if nme in seen:
            continue
        seen.add(nme)
        kinds.add(kind)
        for a, k, b in targets():
            if kind.startswith("scalar") or kind in ("vi-scalar", "displacement"):
                v = nice_float(rng) if kind != "displacement" else rng.uniform(-1, 1)
            elif kind == "vi-array" or kind == "avg-array":
                v = np.array([abs(nice_float(rng)) for _ in range(ng)])
            elif kind == "vi-list":
                v = [abs(nice_float(rng)) for _ in range(ng)]
            elif kind == "vec6-list":
                v = [nice_float(rng) for _ in range(6)]
            elif kind == "vec6-array":
                v = np.array([nice_float(rng) for _ in range(6)])
            elif kind == "vec6-table":
                v = np.array([[nice_float(rng) for _ in range(ng)] for _ in range(6)])
            else:  # pin-array
                v = np.array([abs(nice_float(rng)) for _ in range(max(1, len(b.getPinLocations()) if b.spatialGrid is not None else 3))])
            try:
                b.p[nme] = v
            except ValueError:  # a parameter whose setter validates its range (gasReleaseFraction, bondRemoved): refusal is fine
                if _CTX["rec"] is not None:
                    _CTX["rec"].reject("parameter setter refused the generated value")
                break
            _EVER_ASSIGNED.add(nme)
            done.append((ij(a), k, nme, b.p[nme]))  # what armi stored (a setter may normalise the type)
    if rng.random() < .5:
        kinds.add("assembly-scalar")
        for nme in rng.sample(ASSEM_FLOATS, rng.randint(1, 3)):
            for a in assems:
                if rng.random() < .6:
                    v = nice_float(rng)
                    a.p[nme] = v
                    done.append((ij(a), None, nme, a.p[nme]))
    return done, sorted(kinds)


def edit_composition(rng, core):
    """Composition / temperature edits on random blocks (makes copies of the same design differ)."""
    n = 0
    for a in core:
        for b in a:
            if rng.random() < .3:
                comps = [c for c in b if c.p.numberDensities]
                if not comps:
                    continue
                c = rng.choice(comps)
                nuc = rng.choice(sorted(c.p.numberDensities))
                c.setNumberDensity(nuc, c.p.numberDensities[nuc] * rng.uniform(.5, 1.5))
                n += 1
    return n


# ----------------------------------------------------------------------------- references for the x3 oracle
def leaf_reference(core, cu=False):
    """Full-core expectation from the third-core state by a naive walk: centre once, every other assembly that is not an
    edge (120-degree line) duplicate three times. Uses only component-level getters (full component volume, number
    densities) and stored block parameters."""
    from armi.nucDirectory import nuclideBases
    from armi.utils import units

    K = units.MOLES_PER_CC_TO_ATOMS_PER_BARN_CM
    mass, vol, count = {}, 0.0, 0
    names = vi_names(core)
    tot = {n: None for n in names}
    for a in core:
        c = ij(a)
        ln = line_of(c[0], c[1], cu)
        if ln == "120":
            continue
        wgt = 1.0 if ln == "centre" else 3.0
        count += int(wgt)
        for b in a:
            for comp in b:
                v = comp.getVolume()  # whole component, not cut by symmetry
                vol += wgt * v
                for nuc, n in comp.p.numberDensities.items():
                    mass[nuc] = mass.get(nuc, 0.0) + wgt * n * v * nuclideBases.byName[nuc].weight / K
            for n in names:
                vec = as_vec(b.p[n])
                if vec is None:
                    continue
                # stored third-core value: the centre block holds a third of its full value; the full core holds 3x of everything
                if tot[n] is None:
                    tot[n] = [0.0] * len(vec)
                if len(tot[n]) != len(vec):
                    tot[n] = "ragged"
                if tot[n] != "ragged":
                    tot[n] = [t + 3.0 * x for t, x in zip(tot[n], vec)]
    return {"mass": mass, "volume": vol, "count": count, "totals": tot}


def naive_totals(core):
    names = vi_names(core)
    tot = {n: None for n in names}
    for a in core:
        for b in a:
            for n in names:
                vec = as_vec(b.p[n])
                if vec is None:
                    continue
                if tot[n] is None:
                    tot[n] = [0.0] * len(vec)
                if tot[n] != "ragged" and len(tot[n]) != len(vec):
                    tot[n] = "ragged"
                if tot[n] != "ragged":
                    tot[n] = [t + x for t, x in zip(tot[n], vec)]
    return tot


def armi_totals(core):
    """core.calcTotalParam over blocks for every volume-integrated parameter it can add up (every block holds a number or array)."""
    import numpy as np

    out = {}
    for n in vi_names(core):
        vals = [b.p[n] for a in core for b in a]
        if any(v is None or isinstance(v, (list, str, dict)) for v in vals):
            continue
        if len({np.shape(v) for v in vals}) != 1:
            continue
        out[n] = as_vec(core.calcTotalParam(n, generationNum=2))
    return out


# ----------------------------------------------------------------------------- the history driver
class Case:
    def __init__(self, rec, rng, r, cs, meta, idx):
        self.rec, self.rng, self.r, self.cs, self.meta, self.idx = rec, rng, r, cs, meta, idx
        self.core = r.core
        self.cu = bool(meta["cornersUp"])
        self.cells = Cells(meta["rings"], self.cu)
        self.hist = []
        self.seen_names = set(a.getName() for a in self.core)
        self.seen_nums = set(a.getNum() for a in self.core)
        self.T_active = None       # changer whose convert is not undone yet
        self.T_idle = []           # changers that converted and restored (or never converted)
        self.E_all = []            # every edge changer used: (changer, says_it_added)
        self.kinds_since = set()
        self.ref = None            # observation of the last edge-free third-core state (+ own assignments)
        self.ref_derived = None
        self.added_by_convert = 0
        self.composition_edited_in_edge_state = False
        self.noop_add_edge_pending = False  # an addEdgeAssemblies call added nothing and no assembly was added/removed since
        self.full_centre = {}      # (blockIndex, name) -> value the harness wrote on the centre assembly while the core was full
        self.full_assigned = False  # something was written while the core was full (since the open convert)
        self.conv_list = []        # armi's list of parameters scaled on the centre by the open convert (only used to name a mechanism)
        self.ever_before_convert = set()  # parameter names the harness had ever written when the open convert started

    # -- bookkeeping
    def w(self, **kw):
        d = {"case": self.idx, "core": self.meta, "history": list(self.hist)}
        d.update(kw)
        return d

    def full(self):
        return bool(self.core.isFullCore)

    def edge_cells(self):
        return sorted(c for c in (ij(a) for a in self.core) if line_of(c[0], c[1], self.cu) == "120")

    def state(self):
        return "full" if self.full() else ("third+edges" if self.edge_cells() else "third")

    def observe(self):
        self.seen_names |= set(a.getName() for a in self.core)
        self.seen_nums |= set(a.getNum() for a in self.core)
        return obs(self.core, self.seen_names, self.seen_nums, self.meta["rings"])

    def zones_obs(self):
        out = {"locations": {z.name: sorted(z) for z in self.core.zones}, "zoneOf": {}}
        if len(self.core.zones):
            for a in self.core:
                z = self.core.zones.findZoneItIsIn(a)
                out["zoneOf"][a.getName()] = None if z is None else z.name
        return out

    def judge_zones(self, where, monitor):
        """core.zones answers 'is this location in that zone' / 'which zone is this assembly in': location lookups."""
        ref = getattr(self, "ref_zones", None)
        if ref is None or not ref["locations"]:
            return
        self.rec.hit(monitor)
        now = self.zones_obs()
        if now["zoneOf"] != ref["zoneOf"]:
            bad = sorted(k for k in set(now["zoneOf"]) | set(ref["zoneOf"]) if now["zoneOf"].get(k, "<absent>") != ref["zoneOf"].get(k, "<absent>"))
            self.rec.violation("%s/zone-of-assembly-changed" % where, "zones.findZoneItIsIn resolves differently for %s" % bad[:5], self.w())
        if now["locations"] != ref["locations"]:
            extra = {k: sorted(set(v) - set(ref["locations"].get(k, []))) for k, v in now["locations"].items()}
            lost = {k: sorted(set(v) - set(now["locations"].get(k, []))) for k, v in ref["locations"].items()}
            extra = {k: v for k, v in extra.items() if v}
            lost = {k: v for k, v in lost.items() if v}
            occupied = {a.getLocation() for a in self.core}
            stale_only = bool(extra) and not lost and all(loc not in occupied for v in extra.values() for loc in v)
            self.rec.violation("%s/%s" % (where, "zones-keep-locations-of-removed-assemblies" if stale_only else "zones-changed"),
                               "core.zones lists other locations than before the conversion: added %s, lost %s ('%s' in zone '%s' was False, is True)" % (
                                   {k: v[:4] for k, v in extra.items()}, {k: v[:4] for k, v in lost.items()},
                                   (list(extra.values()) or [[None]])[0][0], (list(extra) or [None])[0]),
                               self.w(zones_before={k: len(v) for k, v in ref["locations"].items()}, zones_after={k: len(v) for k, v in now["locations"].items()}))

    def take_ref(self):
        self.composition_edited_in_edge_state = False  # only called in the edge-free third-core state
        self.ref_zones = self.zones_obs()
        self.ref = self.observe()
        self.ref_derived = derived(self.core, every_nuclide=False)

    def patch_ref(self, done):
        if self.ref is None:
            return
        for cell, kb, nme, v in done:
            ent = self.ref["assems"].get(cell)
            if ent is None:
                continue
            if kb is None:
                ent["p"][nme] = nv(v)
            else:
                ent["blocks"][kb]["p"][nme] = nv(v)

    def guarded(self, where, fn):
        from vlib.env import quiet

        _CTX["w"] = self.w(during=where)
        try:
            with quiet():
                fn()
            return True
        except Exception as e:
            key = where
            if where.startswith("restore") and not self.meta["centre"] and isinstance(e, TypeError):
                key = "restorePreviousGeometry-without-centre-assembly"
            self.rec.crash(key, e, self.w(during=where))
            return False

    # -- judgements
    def judge_same(self, before, after, where, monitor, centre_scaled=False, note=None):
        self.rec.hit(monitor)
        for cat, path, a, b in diff_obs(before, after, set(vi_names(self.core)), centre_scaled=centre_scaled):
            self.rec.violation("%s/%s" % (where, cat), "%s: %s expected %r observed %r%s" % (where, path, _short(a), _short(b), (" [%s]" % note) if note else ""),
                               self.w(path=path))

    def judge_derived(self, where):
        d = derived(self.core, every_nuclide=False)
        rel = TOLERANCES["derived_rel"]
        if not rc(d["volume"], self.ref_derived["volume"], rel):
            self.rec.violation("%s/derived-volume" % where, "core volume %r, was %r" % (d["volume"], self.ref_derived["volume"]), self.w())
        if set(d["mass"]) != set(self.ref_derived["mass"]) or any(not rc(d["mass"][n], self.ref_derived["mass"][n], rel, 1e-30) for n in d["mass"]):
            self.rec.violation("%s/derived-mass" % where, "core mass by nuclide differs from the reference state", self.w())

    # -- operations
    def op_assign(self):
        st = self.state()
        done, kinds = assign_params(self.rng, self.core, st)
        n = edit_composition(self.rng, self.core) if self.rng.random() < .35 else 0
        self.kinds_since |= set(kinds) | ({"composition"} if n else set())
        self.hist.append("assign%s[%s]%s" % ("-on-full-core" if st == "full" else "", ",".join(kinds), "+composition" if n else ""))
        if st == "third":
            self.take_ref()
        else:
            if st == "full":
                # What the statement fixes for values written on the full core: after the restore every original holds what was
                # written (the copies go away with their values), the centre assembly - which stands for a third of itself in
                # the third core - holds a third of every volume-integrated value (restorePreviousGeometry: "changing the
                # parameters of the center assembly from full core to one third core").
                self.full_assigned = True
                self.rec.add("assignments_on_full_core")
                vi = set(vi_names(self.core))
                thirds = []
                for cell, kb, nme, v in done:
                    if cell == (0, 0) and kb is not None and nme in vi and v is not None:
                        self.full_centre[(kb, nme)] = v
                        thirds.append((cell, kb, nme, third_of(v)))
                    else:
                        thirds.append((cell, kb, nme, v))
                done = thirds
            self.patch_ref(done)
            if n:  # composition edits in an edge / full state: re-observe the edited originals
                if st == "third+edges":
                    self.composition_edited_in_edge_state = True
                cur = self.observe()
                for cell, ent in cur["assems"].items():
                    if cell in self.ref["assems"] and self.ref["assems"][cell].get("id") == ent.get("id"):
                        for kb, blk in enumerate(ent["blocks"]):
                            self.ref["assems"][cell]["blocks"][kb]["comps"] = blk["comps"]
                self.ref_derived = None
        return "assign"

    def op_convert(self, how):
        from armi.reactor import parameters
        from armi.reactor.converters import geometryConverters as gc

        core, rec = self.core, self.rec
        st = self.state()
        if how == "reuse" and self.T_idle:
            T = self.rng.choice(self.T_idle)
            self.T_idle.remove(T)
        else:
            how = "new" if how == "reuse" else how
            T = gc.ThirdCoreHexToFullCoreChanger(self.cs if self.rng.random() < .5 else None)
        self.hist.append("convert(%s)" % how)
        if st == "full":
            before = self.observe()
            ok = self.guarded("convert-on-full-core", lambda: T.convert(self.r))
            if ok:
                self.judge_same(before, self.observe(), "convert-on-full-core-not-a-noop", "noop.obs")
            self.T_idle.append(T)
            return "convert-noop"
        # ---- third core (with or without edge assemblies): take the references
        cu = self.cu
        pre_cells = {ij(a) for a in core}
        pre_nonedge = {c for c in pre_cells if line_of(*c, cu) != "120"}
        self.last_pre_cells = pre_cells
        want_cells = self.cells.closure(pre_cells)
        ref = leaf_reference(core, cu)
        pre_obs = self.observe()
        own = {"mass": None}
        if st == "third+edges":
            # the third-core values of a model that carries its edge assemblies (both halves cut by the symmetry lines)
            own = {"edge_derived": None, "upper_edge_cell_of_ring_3_occupied": (-1, 2) in pre_cells}
            if self.composition_edited_in_edge_state:
                rec.skip("x3 of getMass/getVolume of the edge-carrying third core: the harness edited the composition of an edge assembly or its duplicate apart, the two halves no longer describe one assembly")
            else:
                own["edge_derived"] = derived(core)
        if st == "third":
            own = {"derived": derived(core), "totals": armi_totals(core), "naive": naive_totals(core), "n": len(core)}
        if st == "third+edges":
            rec.skip("restore after a convert that started with edge assemblies is compared with the edge-free state (convert documents that it removes them first)")
        # state of armi's scaling flags at entry, only used to name the mechanism of a failure
        flags = {pd.name: bool(pd.assigned & parameters.SINCE_LAST_GEOMETRY_TRANSFORMATION) for pd in core.getFirstBlock().p.paramDefs if pd.name in ref["totals"]}
        stale = list(getattr(T, "listOfVolIntegratedParamsToScale", []) or [])
        ever_before = set(_EVER_ASSIGNED)
        src_snap = {}
        for a in core:
            if ij(a) in pre_nonedge:
                src_snap[ij(a)] = {"rot": [snap_rot(b) for b in a], "id": id(a)}
        if how == "grow":
            holder = {}
            ok = self.guarded("growToFullCore", lambda: holder.setdefault("T", core.growToFullCore(self.cs)))
            T = holder.get("T", T)
        else:
            ok = self.guarded("convert", lambda: T.convert(self.r))
        if not ok:
            return "convert-crashed"
        self.T_active = T
        self.full_centre, self.full_assigned = {}, False
        self.conv_list = list(getattr(T, "listOfVolIntegratedParamsToScale", []) or [])
        self.ever_before_convert = ever_before
        self.added_by_convert = len(core) - len(pre_nonedge)
        w = self.w(state_before=st)
        # 1. cells
        rec.hit("convert.locations")
        got_cells = [ij(a) for a in core]
        if len(set(got_cells)) != len(got_cells):
            rec.violation("convert/two-assemblies-one-cell", "cells occupied twice after convert", w)
        if set(got_cells) != want_cells:
            rec.violation("convert/cells-not-orbit-closure", "occupied cells after convert differ from the 120/240-degree images of the third-core cells: missing %s, unexpected %s" % (
                sorted(want_cells - set(got_cells))[:6], sorted(set(got_cells) - want_cells)[:6]), w)
        pitch = None
        for a in core:
            c = ij(a)
            gx, gy, _ = a.spatialLocator.getGlobalCoordinates()
            if pitch is None:
                pitch = self.grid_pitch
            x, y = hex_xy(c[0], c[1], pitch, cu)
            if abs(gx - x) > TOLERANCES["coord_rel_to_pitch"] * pitch * self.meta["rings"] or abs(gy - y) > TOLERANCES["coord_rel_to_pitch"] * pitch * self.meta["rings"]:
                rec.violation("convert/assembly-coordinates", "assembly in cell %s sits at (%r,%r); closed form says (%r,%r)" % (c, gx, gy, x, y), w)
                break
        if not core.isFullCore or str(core.symmetry) != "full" or core.powerMultiplier != 1:
            rec.violation("convert/symmetry-not-full", "after convert symmetry=%s isFullCore=%s powerMultiplier=%s" % (core.symmetry, core.isFullCore, core.powerMultiplier), w)
        for a in core:
            for b in a:
                if b.getSymmetryFactor() != 1.0:
                    rec.violation("convert/symmetry-factor-not-1", "block %s in %s has symmetry factor %s in the full core" % (b.getName(), a.getLocation(), b.getSymmetryFactor()), w)
                    break
        # 2. copies
        post_obs = self.observe()
        self.judge_copies(pre_obs, post_obs, pre_nonedge, src_snap, w)
        independence(core, rec, w, "convert")
        lookups_ok(core, rec, w, "after convert")
        for a in core:
            if core.getAssemblyWithStringLocation(a.getLocation()) is not a:
                rec.violation("convert/location-lookup", "getAssemblyWithStringLocation(%s) does not return the assembly there" % a.getLocation(), w)
                break
            if core.getAssemblyByName(a.getName()) is not a:
                rec.violation("convert/name-lookup", "getAssemblyByName(%s) returns another object" % a.getName(), w)
                break
        # 3. totals
        pending = self.noop_add_edge_pending and st == "third"
        self.judge_totals(ref, own, st, flags, stale, T, w, how, pending,
                          (pre_obs["assems"].get((0, 0)) or {}).get("blocks"), (post_obs["assems"].get((0, 0)) or {}).get("blocks"))
        if self.added_by_convert or st == "third+edges":
            self.noop_add_edge_pending = False
        self.kinds_since = set()
        return "convert"

    def judge_copies(self, pre_obs, post_obs, pre_nonedge, src_snap, w):
        rec, core = self.rec, self.core
        vi = set(vi_names(core))
        byid = {id(a): a for a in core}
        bnames = boundary_names(core.getFirstBlock())
        for cell, ent in sorted(post_obs["assems"].items()):
            if "DUPLICATE" in ent:
                continue
            if cell in pre_nonedge:
                # an original: same object, same place; untouched unless it is the centre
                src = pre_obs["assems"][cell]
                if src.get("id") != ent["id"] or src["name"] != ent["name"]:
                    rec.violation("convert/original-replaced", "cell %s held %s before convert and %s after" % (cell, src.get("name"), ent["name"]), w)
                    continue
                for kb, (x, y) in enumerate(zip(src["blocks"], ent["blocks"])):
                    for pn, pv in x["p"].items():
                        if y["p"][pn] == pv:
                            continue
                        if cell == (0, 0) and pn in vi:
                            continue  # judged through the totals and the restore
                        rec.violation("convert/original-changed/block-param/%s" % ("centre" if cell == (0, 0) else "off-centre"),
                                      "convert changed p.%s of block %d of the original assembly in %s: %r -> %r" % (pn, kb, cell, _short(pv), _short(y["p"][pn])), w)
                        break
                    if x["comps"] != y["comps"]:
                        rec.violation("convert/original-changed/component", "convert changed a component of the original assembly in %s" % (cell,), w)
                if src["p"] != ent["p"]:
                    bad = [pn for pn in src["p"] if src["p"][pn] != ent["p"][pn]]
                    rec.violation("convert/original-changed/assembly-param", "convert changed %s of the original assembly in %s" % (bad[:4], cell), w)
                continue
            # an added assembly: find its source by rotating the cell centre back
            rec.hit("convert.copies")
            srcs = [(k, self.cells.image(cell[0], cell[1], -60 * k)) for k in (2, 4)]
            srcs = [(k, c) for k, c in srcs if c in pre_nonedge]
            if len(srcs) != 1:
                rec.violation("convert/added-assembly-without-unique-source", "cell %s is the 120/240-degree image of %d third-core cells" % (cell, len(srcs)), w)
                continue
            k, scell = srcs[0]
            src = pre_obs["assems"][scell]
            if ent["id"] == src["id"] or ent["name"] == src["name"] or ent["num"] == src["num"]:
                rec.violation("convert/copy-not-unique", "assembly in %s has name/number %s/%s, its source in %s has %s/%s" % (cell, ent["name"], ent["num"], scell, src["name"], src["num"]), w)
            if ent["name"] in self.names_before_convert(pre_obs):
                rec.violation("convert/copy-reuses-existing-name", "assembly added in %s is named %s which existed before" % (cell, ent["name"]), w)
            if ent["num"] < 0:
                rec.violation("convert/copy-keeps-placeholder-number", "assembly added in %s has number %s" % (cell, ent["num"]), w)
            a_new = byid[ent["id"]]
            # parameters equal to the source's except own identity and rotated ones
            bad = [pn for pn in src["p"] if pn not in OWN_ASSEM_PARAMS and src["p"][pn] != ent["p"][pn]]
            if bad:
                rec.violation("convert/copy-differs/assembly-param", "copy in %s differs from its source in %s in assembly parameters %s: %r vs %r" % (
                    cell, scell, bad[:4], _short(ent["p"][bad[0]]), _short(src["p"][bad[0]])), w)
            if len(src["blocks"]) != len(ent["blocks"]):
                rec.violation("convert/copy-differs/block-count", "copy in %s has %d blocks, source %d" % (cell, len(ent["blocks"]), len(src["blocks"])), w)
                continue
            for kb, (x, y) in enumerate(zip(src["blocks"], ent["blocks"])):
                if x["name"] == y["name"] or x["id"] == y["id"]:
                    rec.violation("convert/copy-not-unique/block", "block %d of the copy in %s is named %s like its source" % (kb, cell, y["name"]), w)
                if x["height"] != y["height"]:
                    rec.violation("convert/copy-differs/height", "block %d of copy in %s: height %r vs %r" % (kb, cell, y["height"], x["height"]), w)
                badp = [pn for pn in x["p"] if pn not in OWN_BLOCK_PARAMS and pn not in ROTATED_BLOCK_PARAMS and pn not in bnames and x["p"][pn] != y["p"][pn]]
                if badp:
                    pn = badp[0]
                    rec.violation("convert/copy-differs/block-param/%s" % ("VOLUME_INTEGRATED" if pn in vi else "other"),
                                  "block %d of the copy in %s differs from its source in %s in %s: p.%s = %r vs %r" % (kb, cell, scell, badp[:4], pn, _short(y["p"][pn]), _short(x["p"][pn])), w)
                for cx, cy in zip(x["comps"], y["comps"]):
                    if cx["id"] == cy["id"]:
                        rec.violation("convert/shared-node/component", "component %s shared between %s and %s" % (cx["name"], cell, scell), w)
                    pa = {k_: v_ for k_, v_ in cx["p"].items() if k_ != "serialNum"}
                    pb = {k_: v_ for k_, v_ in cy["p"].items() if k_ != "serialNum"}
                    if (cx["name"], cx["type"], cx["material"]) != (cy["name"], cy["type"], cy["material"]) or pa != pb:
                        badc = [k_ for k_ in pa if pa[k_] != pb.get(k_)]
                        rec.violation("convert/copy-differs/component", "component %s of block %d of the copy in %s differs from its source in %s" % (cx["name"], kb, cell, badc[:4]), w)
                        break
                if len(x["comps"]) != len(y["comps"]):
                    rec.violation("convert/copy-differs/component-count", "block %d of copy in %s" % (kb, cell), w)
            for kb, (x, y) in enumerate(zip(post_obs["assems"][scell]["blocks"], ent["blocks"])):
                if x["area"] != y["area"] or x["symfac"] != y["symfac"]:
                    rec.violation("convert/copy-differs/area", "block %d: copy in %s has area %r (symmetry factor %s), its source in the full core %r (%s)" % (
                        kb, cell, y["area"], y["symfac"], x["area"], x["symfac"]), w)
                    break
            # rotated into place: angle measured between the two cell centres
            ksteps = Cells.steps(scell, cell, self.cu)
            for kb, b in enumerate(a_new):
                before = src_snap[scell]["rot"][kb]
                judge_rotation(rec, before, snap_rot(b), ksteps, dict(w, copy=list(cell), source=list(scell), steps=ksteps), self.grid_pitch, "convert/copy-rotation")
            src_obj = next((a for a in core if ij(a) == scell), None)
            if src_obj is not None and not rc(a_new.getMass(), src_obj.getMass(), TOLERANCES["copy_mass_rel"]):
                rec.violation("convert/copy-differs/mass", "copy in %s weighs %r, its source %r" % (cell, a_new.getMass(), src_obj.getMass()), w)

    @staticmethod
    def names_before_convert(pre_obs):
        return {e["name"] for e in pre_obs["assems"].values() if "name" in e}

    def judge_totals(self, ref, own, st, flags, stale, T, w, how, noop_add_edge_pending, pre_centre, post_centre):
        rec, core = self.rec, self.core
        rec.hit("convert.totals")
        rel = TOLERANCES["x3_rel"]
        # counts
        if len(core) != ref["count"]:
            rec.violation("convert/count-not-x3", "%d assemblies after convert; third core says %d (centre once, the others three times)" % (len(core), ref["count"]), w)
        if st == "third" and len(core) != 3 * own["n"] - (2 if self.has_centre_assembly() else 0):
            rec.violation("convert/count-not-x3", "%d assemblies after convert, %d before" % (len(core), own["n"]), w)
        d = derived(core)
        if not rc(d["volume"], ref["volume"], rel):
            rec.violation("convert/volume-not-x3", "core volume after convert %r; leaves of the third core (centre once, others x3) give %r" % (d["volume"], ref["volume"]), w)
        bad = [n for n in set(d["mass"]) | set(ref["mass"]) if not rc(d["mass"].get(n, 0.0), ref["mass"].get(n, 0.0), rel, 1e-30)]
        if bad:
            n = sorted(bad)[0]
            rec.violation("convert/mass-not-x3", "getMass(%s) after convert %r; leaves of the third core give %r (%d nuclides off)" % (n, d["mass"].get(n), ref["mass"].get(n), len(bad)), w)
        if st == "third":
            if not rc(d["volume"], 3 * own["derived"]["volume"], rel):
                rec.violation("convert/volume-not-x3", "core.getVolume() %r after convert, %r before" % (d["volume"], own["derived"]["volume"]), w)
            bad = [n for n in own["derived"]["mass"] if not rc(d["mass"].get(n, 0.0), 3 * own["derived"]["mass"][n], rel, 1e-30)]
            if bad:
                rec.violation("convert/mass-not-x3", "core.getMass(%s) %r after convert, %r before" % (bad[0], d["mass"].get(bad[0]), own["derived"]["mass"][bad[0]]), w)
            if not rc(d["massTotal"], 3 * own["derived"]["massTotal"], rel):
                rec.violation("convert/mass-not-x3", "core.getMass() %r after convert, %r before" % (d["massTotal"], own["derived"]["massTotal"]), w)
        if st == "third+edges" and own["edge_derived"] is not None:
            e = own["edge_derived"]
            offm = sorted(n for n in e["mass"] if not rc(d["mass"].get(n, 0.0), 3 * e["mass"][n], rel, 1e-30))
            offv = not rc(d["volume"], 3 * e["volume"], rel)
            if offm or offv:
                # HexBlock.getSymmetryFactor recognises edge assemblies only by looking at cell (-1,2)
                mech = "other" if own["upper_edge_cell_of_ring_3_occupied"] else "ring-3-edge-cell-empty"
                rec.violation("convert/mass-volume-not-x3-of-edge-state/%s" % mech,
                              "third core with edge assemblies: getVolume %r, after convert %r (ratio %.6f); getMass of %d nuclides off, e.g. %s: %r -> %r" % (
                                  e["volume"], d["volume"], d["volume"] / e["volume"], len(offm), offm[:1], e["mass"].get(offm[0]) if offm else None, d["mass"].get(offm[0]) if offm else None),
                              dict(w, edge_cells_before=sorted(c for c in self.last_pre_cells if line_of(c[0], c[1], self.cu) == "120")))
        # volume-integrated totals
        now_naive = naive_totals(core)
        now_armi = armi_totals(core)
        failed = []
        for n, want in ref["totals"].items():
            if want is None or want == "ragged":
                continue
            got = now_naive.get(n)
            if got is None or got == "ragged" or len(got) != len(want) or any(not rc(g, x, rel, 1e-300) for g, x in zip(got, want)):
                failed.append((n, want, got))
                continue
            if n in now_armi and any(not rc(g, x, rel, 1e-300) for g, x in zip(now_armi[n], want)):
                failed.append((n, want, now_armi[n]))
            if st == "third" and n in own["totals"] and n in now_armi:
                if any(not rc(g, 3 * x, rel, 1e-300) for g, x in zip(now_armi[n], own["totals"][n])):
                    failed.append((n, [3 * x for x in own["totals"][n]], now_armi[n]))
        if failed:
            # Name the mechanism. A known mechanism is only named when the recorded history AND what was observed around the call
            # are exactly what that mechanism predicts; everything else is reported under .../other.
            names = sorted({f[0] for f in failed})
            unarmed = {n for n in names if not flags.get(n, True)}
            used = list(getattr(T, "listOfVolIntegratedParamsToScale", []) or [])

            def centre_untouched(n):
                if not pre_centre or not post_centre:
                    return False
                return all(x["p"].get(n) == y["p"].get(n) for x, y in zip(pre_centre, post_centre))

            groups = {}
            for n in names:
                if how == "reuse" and stale and n not in stale and centre_untouched(n):
                    # history: this changer already converted once; its parameter list was built then and lacks n
                    mech = "reused-changer-keeps-old-parameter-list"
                elif not stale and noop_add_edge_pending and n in unarmed and centre_untouched(n):
                    # history: an addEdgeAssemblies call that added nothing, no assembly added/removed and n not assigned since
                    mech = "scaling-flags-cleared-by-addEdgeAssemblies"
                else:
                    mech = "other"
                groups.setdefault(mech, []).append(n)
            byname = {}
            for f in failed:
                byname.setdefault(f[0], f)
            for mech, ns in sorted(groups.items()):
                n, want, got = byname[ns[0]]
                rec.violation("convert/volume-integrated-total-not-x3/%s" % mech,
                              "total of block parameter %s over the full core is %r; 3 x the third-core total is %r (%d parameters off this way: %s); parameters armi scaled on the centre: %d of %d" % (
                                  n, _short(got), _short(want), len(ns), ns[:6], len([x for x in used if x in ref["totals"]]), len(ref["totals"])),
                              dict(w, off=ns[:10], flags_unset_at_entry=sorted(unarmed)[:10], list_before_convert=stale[:5], changer=how,
                                   noop_addEdge_since_last_change_of_assembly_set=bool(noop_add_edge_pending)))

    def has_line0(self):
        return any(line_of(c[0], c[1], self.cu) == "0" for c in (ij(a) for a in self.core))

    def has_centre_assembly(self):
        return any(ij(a) == (0, 0) for a in self.core)

    def op_restore(self, idle=False):
        from armi.reactor.converters import geometryConverters as gc

        if idle or self.T_active is None:
            T = self.rng.choice(self.T_idle) if self.T_idle and self.rng.random() < .7 else gc.ThirdCoreHexToFullCoreChanger(None)
            self.hist.append("restore(idle)")
            before = self.observe()
            arg = self.r
            if self.guarded("restore-with-nothing-to-restore", lambda: T.restorePreviousGeometry(arg)):
                self.judge_same(before, self.observe(), "restore-with-nothing-to-restore-not-a-noop", "noop.obs")
            return "restore-idle"
        T = self.T_active
        self.hist.append("restore" + ("[after writing parameters on the full core]" if self.full_assigned else ""))
        use_arg = self.rng.random() < .5
        ok = self.guarded("restorePreviousGeometry", lambda: T.restorePreviousGeometry(self.r) if use_arg else T.restorePreviousGeometry())
        self.T_active = None
        self.T_idle.append(T)
        if self.added_by_convert:
            self.noop_add_edge_pending = False
        if not ok:
            self.full_centre, self.full_assigned = {}, False
            return "restore-crashed"
        w = self.w()
        lookups_ok(self.core, self.rec, w, "after restorePreviousGeometry")
        if self.full():
            self.rec.hit("restore.obs")
            self.rec.violation("restore/core-still-full/%s" % ("convert-had-added-no-assembly" if self.added_by_convert == 0 else "other"),
                               "after restorePreviousGeometry the core is still %s with %d assemblies (convert had added %d)" % (self.core.symmetry, len(self.core), self.added_by_convert), w)
            return "restore-left-full"
        self.judge_zones("restore", "restore.zones")
        if self.ref is not None:
            self.judge_full_assigned_centre(w)
            self.judge_same(self.ref, self.observe(), "restore", "restore.obs", centre_scaled=True)
            if self.ref_derived is not None:
                self.judge_derived("restore")
        if self.state() == "third":
            self.take_ref_keep_scaled()
        return "restore"

    def judge_full_assigned_centre(self, w):
        """Volume-integrated values the harness wrote on the centre assembly while the core was full: a third of them now."""
        todo, self.full_centre, self.full_assigned = self.full_centre, {}, False
        centre = next((a for a in self.core if ij(a) == (0, 0)), None)
        if not todo or centre is None or self.ref is None or (0, 0) not in self.ref["assems"]:
            return
        blocks = list(centre)
        groups = {}
        for (kb, nme), v in sorted(todo.items()):
            self.rec.hit("restore.centre-thirds")
            got = blocks[kb].p[nme]
            want = third_of(v)
            gv, wv = as_vec(got), as_vec(want)
            ok = gv is not None and wv is not None and len(gv) == len(wv) and all(rc(g, x, TOLERANCES["restore_scaled_rel"], 1e-300) for g, x in zip(gv, wv))
            if ok:
                continue
            # name the mechanism only when history and observation are exactly what it predicts: the harness wrote this parameter
            # for the first time in this process while the core was full (nothing had written it when convert started, so its
            # definition carried no assigned-flag and armi did not put it on the list it scales on the centre), and the value is
            # still exactly the one written on the full core
            fv = as_vec(v)
            if gv is not None and gv == fv and nme not in self.ever_before_convert and nme not in self.conv_list:
                mech = "parameter-first-assigned-on-the-full-core"
            else:
                mech = "other"
            groups.setdefault(mech, []).append((kb, nme, v, got))
            self.ref["assems"][(0, 0)]["blocks"][kb]["p"][nme] = nv(got)  # reported here, once
        for mech, items in sorted(groups.items()):
            kb, nme, v, got = items[0]
            self.rec.violation("restore/centre-volume-integrated-value-written-on-full-core-not-divided-by-3/%s" % mech,
                               "p.%s of block %d of the centre assembly was set to %s while the core was full; after restorePreviousGeometry it is %s, a third would be %s (%d values off this way: %s)" % (
                                   nme, kb, _short(v), _short(got), _short(third_of(v)), len(items), sorted({i[1] for i in items})[:6]),
                               dict(w, parameters=sorted({i[1] for i in items})[:10], scaled_by_convert=len(self.conv_list)))

    def take_ref_keep_scaled(self):
        # the centre's scaled values may differ by one rounding from the old reference; from here on the new values are the state
        self.take_ref()

    def op_add_edge(self, reuse):
        from armi.reactor.converters import geometryConverters as gc

        st = self.state()
        if reuse and self.E_all:
            E = self.rng.choice(self.E_all)
        else:
            E = gc.EdgeAssemblyChanger()
            self.E_all.append(E)
        self.hist.append("addEdge(%s)" % ("reuse" if reuse and len(self.E_all) > 1 else "new"))
        before = self.observe()
        n0 = len(self.core)
        ok = self.guarded("addEdgeAssemblies", lambda: E.addEdgeAssemblies(self.core))
        if not ok:
            return "addEdge-crashed"
        w = self.w(state_before=st)
        lookups_ok(self.core, self.rec, w, "after addEdgeAssemblies")
        independence(self.core, self.rec, w, "addEdge")
        if st == "full":
            self.judge_same(before, self.observe(), "addEdge-on-full-core-not-a-noop", "noop.obs")
            return "addEdge-noop"
        # the originals must not be touched by adding their duplicates
        after = self.observe()
        self.rec.hit("addEdge.originals")
        for cell, src in before["assems"].items():
            ent = after["assems"].get(cell)
            if ent is None or ent.get("id") != src.get("id"):
                self.rec.violation("addEdge/original-moved-or-replaced", "cell %s held %s before addEdgeAssemblies" % (cell, src.get("name")), w)
                continue
            for kb, (x, y) in enumerate(zip(src["blocks"], ent["blocks"])):
                if x["p"] != y["p"] or x["comps"] != y["comps"]:
                    bad = [pn for pn in x["p"] if x["p"][pn] != y["p"][pn]]
                    self.rec.violation("addEdge/original-changed", "addEdgeAssemblies changed %s of block %d of the assembly in %s" % (bad[:4], kb, cell), w)
                    break
        new_cells = sorted(set(after["assems"]) - set(before["assems"]))
        if any(line_of(c[0], c[1], self.cu) != "120" for c in new_cells):
            self.rec.violation("addEdge/added-off-the-120-degree-line", "addEdgeAssemblies put assemblies in %s" % (new_cells,), w)
        self.rec.add("edge_assemblies_added", len(self.core) - n0)
        self.hist[-1] += "=+%d" % (len(self.core) - n0)
        self.noop_add_edge_pending = len(self.core) == n0
        return "addEdge" if len(self.core) > n0 else "addEdge-nothing-to-add"

    def op_remove_edge(self, fresh):
        from armi.reactor.converters import geometryConverters as gc

        st = self.state()
        E = gc.EdgeAssemblyChanger() if (fresh or not self.E_all) else self.rng.choice(self.E_all)
        self.hist.append("removeEdge(%s)" % ("new" if fresh or not self.E_all else "reuse"))
        before = self.observe()
        ok = self.guarded("removeEdgeAssemblies", lambda: E.removeEdgeAssemblies(self.core))
        if not ok:
            return "removeEdge-crashed"
        w = self.w(state_before=st)
        lookups_ok(self.core, self.rec, w, "after removeEdgeAssemblies")
        if st == "full":
            self.judge_same(before, self.observe(), "removeEdge-on-full-core-not-a-noop", "noop.obs")
            return "removeEdge-noop"
        if st == "third":
            self.judge_same(before, self.observe(), "removeEdge-without-edges-not-a-noop", "noop.obs")
            return "removeEdge-nothing"
        self.noop_add_edge_pending = False
        if self.edge_cells():
            self.rec.violation("removeEdge/edge-assemblies-left", "cells %s on the 120-degree line still occupied" % (self.edge_cells(),), w)
        self.judge_zones("edge-roundtrip", "edge-roundtrip.zones")
        if self.ref is not None:
            self.judge_same(self.ref, self.observe(), "edge-roundtrip", "edge-roundtrip.obs")
            if self.ref_derived is not None:
                self.judge_derived("edge-roundtrip")
        self.take_ref()
        return "removeEdge"


    # -- EdgeAssemblyChanger.scaleParamsRelatedToSymmetry
    def twin_pairs(self):
        """(cell on the 0-degree line, its assembly, the cell 120 degrees further, the assembly there) - by rotating the cell centre."""
        by = {ij(a): a for a in self.core}
        out = []
        for c, a in sorted(by.items()):
            if line_of(c[0], c[1], self.cu) == "0":
                t = self.cells.image(c[0], c[1], 120)
                if t in by and line_of(t[0], t[1], self.cu) == "120":
                    out.append((c, a, t, by[t]))
        return out

    def op_scale_edge(self):
        """Two halves -> one whole hexagon: 'These params are at half their full hex value. Scale them right before deleting
        their symmetric identicals. The two operations (scaling them and then removing others) is identical to combining two
        half-assemblies into a full one.'"""
        import numpy as np
        from armi.reactor.converters import geometryConverters as gc

        rec, rng, core = self.rec, self.rng, self.core
        pairs = self.twin_pairs()
        if not pairs or any(len(a) != len(a2) for _, a, _, a2 in pairs):
            rec.skip("scaleParamsRelatedToSymmetry: no complete pair of twins on the two symmetry lines")
            self.hist.append("scaleEdge(skipped)")
            return "scaleEdge-skipped"
        vi = vi_names(core)
        b0 = core.getFirstBlock()
        scalars = [n for n in catalog(b0).get("VOLUME_INTEGRATED", [])]
        picks = [(n, "scalar") for n in rng.sample(scalars, min(len(scalars), rng.randint(1, 4)))]
        if "power" in scalars and rng.random() < .5 and ("power", "scalar") not in picks:
            picks.append(("power", "scalar"))
        for n in rng.sample(VI_ARRAYS, rng.randint(0, 3) if rng.random() < .3 else rng.randint(1, 3)):
            picks.append((n, rng.choice(["list", "list", "array"])))
        mode = rng.choice(["halves", "distinct"])
        ng = rng.choice([1, 2, 4])
        names = [n for n, _ in picks]
        # 1. write the halves (what a flux solution on the edge-carrying model leaves behind)
        want = {}   # (lower cell, block index, name) -> (kind, expected numeric content)
        for c, a, t, a2 in pairs:
            for kb, (b, b2) in enumerate(zip(a, a2)):
                for n, kind in picks:
                    cur = as_vec(b.p[n])
                    if kind == "scalar":
                        if mode == "halves":
                            full = cur[0] if (cur and len(cur) == 1 and cur[0] != 0.0 and abs(cur[0]) > 1e-280 and math.isfinite(cur[0])) else nice_float(rng)
                            x = y = full / 2
                        else:
                            x, y = nice_float(rng), nice_float(rng)
                            if x + y == 0.0:
                                y = 2 * y
                    else:
                        if mode == "halves":
                            full = cur if (cur and len(cur) == ng and all(f > 1e-280 and math.isfinite(f) for f in cur)) else [abs(nice_float(rng)) for _ in range(ng)]
                            x, y = [f / 2 for f in full], [f / 2 for f in full]
                        else:
                            x, y = [abs(nice_float(rng)) for _ in range(ng)], [abs(nice_float(rng)) for _ in range(ng)]
                        if kind == "array":
                            x, y = np.array(x), np.array(y)
                    b.p[n] = x
                    b2.p[n] = y
                    _EVER_ASSIGNED.add(n)
                    lo, up = as_vec(b.p[n]), as_vec(b2.p[n])  # what armi stored
                    want[(c, kb, n)] = (kind, [p_ + q_ for p_, q_ in zip(lo, up)])
        # 2. all parameters armi will consider (None) or only the ones just written (subset)
        flux_names = set(VI_ARRAYS)

        def compatible(lo, up, n):
            if lo is None or not np.any(lo):
                return True  # documented: only non-zero values are scaled
            lv, uv = as_vec(lo), as_vec(up)
            if lv is None or uv is None or len(lv) != len(uv):
                return False
            return n in flux_names or not isinstance(lo, list)

        all_ok = all(compatible(b.p[n], b2.p[n], n) for _, a, _, a2 in pairs for b, b2 in zip(a, a2) for n in vi)
        subset = None if (all_ok and rng.random() < .4) else list(names)
        if subset is not None and rng.random() < .5:
            rng.shuffle(subset)
        self.hist.append("scaleEdge(%s,%s,%s)" % (mode, "all parameters" if subset is None else "subset", "+".join(sorted({k for _, k in picks}))))
        self.kinds_since |= {"edge-halves-" + k for _, k in picks}
        before = self.observe()
        vol_full = {(c, kb): sum(comp.getVolume() for comp in b) for c, a, _, _ in pairs for kb, b in enumerate(a)}
        upper_vals = {(c, kb, n): as_vec(b2.p[n]) for c, _, _, a2 in pairs for kb, b2 in enumerate(a2) for n in vi}
        if not self.guarded("scaleParamsRelatedToSymmetry", lambda: gc.EdgeAssemblyChanger.scaleParamsRelatedToSymmetry(core, subset) if subset is not None
                            else gc.EdgeAssemblyChanger.scaleParamsRelatedToSymmetry(core)):
            return "scaleEdge-crashed"
        w = self.w(pairs=[[list(c), list(t)] for c, _, t, _ in pairs], subset=subset)
        after = self.observe()
        rec.hit("scaleEdge.sums")
        rel = TOLERANCES["edge_sum_rel"]
        flux_of = {"mgFlux": "flux", "adjMgFlux": "fluxAdj", "mgFluxGamma": "fluxGamma"}
        reported = set()
        allowed = {}  # (cell, kb, name) -> True where the new value was judged here (or is one of the two documented outcomes)
        for (c, kb, n), (kind, exp) in sorted(want.items()):
            rec.add("scaleEdge.values")
            got = _stored(after, c, kb, n)
            allowed[(c, kb, n)] = True
            if got is None or len(got) != len(exp) or any(not rc(g, x, rel, 1e-300) for g, x in zip(got, exp)):
                key = "scaleEdge/%s-not-sum-of-the-two-halves" % ("scalar" if kind == "scalar" else "multigroup-flux")
                if key not in reported:
                    reported.add(key)
                    rec.violation(key, "after scaleParamsRelatedToSymmetry p.%s of block %d in %s is %s; the two halves stored in %s and its twin add up to %s" % (
                        n, kb, c, _short(got), c, _short(exp)), dict(w, parameter=n))
            if n in flux_of:
                fn = flux_of[n]
                allowed[(c, kb, fn)] = True
                fexp = sum(exp) / vol_full[(c, kb)]
                fgot = _stored(after, c, kb, fn)
                rec.add("scaleEdge.fluxes")
                if fgot is None or len(fgot) != 1 or not rc(fgot[0], fexp, TOLERANCES["edge_flux_rel"], 1e-300):
                    key = "scaleEdge/scalar-flux-not-total-over-whole-hexagon"
                    if key not in reported:
                        reported.add(key)
                        rec.violation(key, "p.%s of block %d in %s is %s after combining the halves; sum(p.%s)/volume of the whole hexagon = %r (volume %r)" % (
                            fn, kb, c, _short(fgot), n, fexp, vol_full[(c, kb)]), dict(w, parameter=fn))
        if subset is None:
            # parameters the harness did not write just now: armi scales the ones 'assigned since the edge assemblies were added';
            # the docstring does not say which those are, so either outcome (untouched, or the two halves added up) is accepted
            for c, a, _, _ in pairs:
                for kb in range(len(a)):
                    for n in vi:
                        if (c, kb, n) in want:
                            continue
                        if before["assems"][c]["blocks"][kb]["p"].get(n) == after["assems"][c]["blocks"][kb]["p"].get(n):
                            continue
                        old, new = _stored(before, c, kb, n), _stored(after, c, kb, n)
                        up = upper_vals.get((c, kb, n))
                        if old is None or new is None or up is None or len(up) != len(old) or len(new) != len(old):
                            continue
                        if all(rc(g, p_ + q_, rel, 1e-300) for g, p_, q_ in zip(new, old, up)):
                            allowed[(c, kb, n)] = True
                            rec.add("scaleEdge.other-parameters-added-up")
                            if n in flux_of:
                                allowed[(c, kb, flux_of[n])] = True
        # 3. nothing else moved: the twins on the 120-degree line, every other assembly, every other parameter
        patched = before
        for (c, kb, n) in allowed:
            patched["assems"][c]["blocks"][kb]["p"][n] = after["assems"][c]["blocks"][kb]["p"].get(n)
        self.judge_same(patched, after, "scaleEdge-changed-something-else", "scaleEdge.rest")
        # from here on the sums are the state of the assemblies on the 0-degree line
        if self.ref is not None:
            for (c, kb, n) in allowed:
                ent = self.ref["assems"].get(c)
                if ent is not None:
                    ent["blocks"][kb]["p"][n] = after["assems"][c]["blocks"][kb]["p"].get(n)
        return "scaleEdge"


def _stored(o, cell, kb, name):
    """raw numeric content of a parameter out of an observation (normal form -> flat floats or None)"""
    return _numeric(o["assems"][cell]["blocks"][kb]["p"].get(name))


def _short(v):
    s = repr(v)
    return s if len(s) < 160 else s[:157] + "..."


def pick_op(rng, st, case):
    if st == "full":
        if case.T_active is not None:
            return rng.choice(["restore"] * 6 + ["assign"] * 2 + ["convert-noop", "addEdge", "removeEdge", "restore-idle"])
        return rng.choice(["convert-noop", "addEdge", "removeEdge", "restore-idle"])  # a full-core blueprint: not generated
    if st == "third":
        if case.has_line0() and rng.random() < .35:
            return rng.choice(["addEdge-new", "addEdge-new", "addEdge-reuse"])
        return rng.choice(["convert-new"] * 4 + ["convert-reuse"] * 2 + ["convert-grow", "addEdge-new", "addEdge-new", "addEdge-new", "addEdge-reuse",
                          "assign", "assign", "assign", "removeEdge", "restore-idle"])
    return rng.choice(["removeEdge"] * 4 + ["removeEdge-fresh"] * 2 + ["convert-new"] * 3 + ["scaleEdge"] * 4 + ["convert-reuse", "assign", "assign", "addEdge-reuse", "addEdge-new"])


def run_shard(spec, rec):
    from vlib import gen

    _CTX["rec"] = rec
    _CTX["on"] = True
    install_hooks()
    for i in range(spec["n"]):
        rng = random.Random("%s:%d" % (spec["rng"], i))
        cspec, meta = make_core_spec(rng, spec["maxrings"], spec.get("big", False))
        _CTX["w"] = {"case": i, "core": meta, "during": "build"}
        try:
            meta["trackAssems"] = rng.random() < .5  # purges during restore / remove-edge must leave the name tables clean either way
            r, cs, bp, text = gen.build_reactor(cspec, {"trackAssems": True} if meta["trackAssems"] else None)
        except Exception as e:
            if not meta["centre"]:
                rec.skip("third core without a centre assembly could not be built (%s)" % type(e).__name__)
                continue
            rec.crash("build-reactor", e, {"core": meta})
            continue
        case = Case(rec, rng, r, cs, meta, i)
        core = r.core
        case.grid_pitch = float(core.spatialGrid.pitch)  # the lattice constant the model was built with (input, not behaviour)
        if str(core.symmetry) != "third periodic" or core.isFullCore:
            rec.crash("build-reactor", RuntimeError("harness: generated core is not third periodic"), {"core": meta})
            continue
        if sorted(ij(a) for a in core) != [tuple(c) for c in meta["cells"]]:
            rec.violation("precondition/built-core-cells-differ-from-blueprint", "blueprint cells %s, built core holds %s" % (meta["cells"], sorted(ij(a) for a in core)), {"core": meta})
            continue
        lookups_ok(core, rec, case.w(), "after build")
        independence(core, rec, case.w(), "build")
        if rng.random() < .3 and len(core) > 1:
            from armi.reactor import zones as zmod

            za, zb = zmod.Zone("inner"), zmod.Zone("outer")
            for a_ in core:
                (za if a_.spatialLocator.getRingPos()[0] <= 2 else zb).addLoc(a_.getLocation())
            core.zones.addZone(za)
            if len(zb):
                core.zones.addZone(zb)
            rec.add("cores_with_zones")
        if rng.random() < .8:
            case.op_assign()
        else:
            case.take_ref()
        nops = rng.randint(4, 9)
        for step in range(nops):
            st = case.state()
            op = pick_op(rng, st, case)
            nh = len(case.hist)
            if op == "assign":
                res = case.op_assign()
            elif op.startswith("convert"):
                res = case.op_convert({"convert-new": "new", "convert-reuse": "reuse", "convert-grow": "grow", "convert-noop": "new"}[op])
            elif op == "restore":
                res = case.op_restore()
            elif op == "restore-idle":
                res = case.op_restore(idle=True)
            elif op.startswith("addEdge"):
                res = case.op_add_edge(reuse=op.endswith("reuse"))
            elif op == "scaleEdge":
                res = case.op_scale_edge()
            else:
                res = case.op_remove_edge(fresh=op.endswith("fresh"))
            sig = [res, st, meta["rings"], meta["policy"], meta["centre"], sorted(case.kinds_since)]
            rec.case(sig, nontrivial=len(meta["cells"]) > 1,
                     sample={"core": meta, "history": list(case.hist)} if (i == 0 and step == nops - 1) else None)
            if res.endswith("crashed"):
                break
        # leave through a restore when a conversion is still open, so every conversion is also judged backwards
        if case.T_active is not None and case.state() == "full":
            case.op_restore()
            rec.case(["restore", "full", meta["rings"], meta["policy"], meta["centre"], []], nontrivial=len(meta["cells"]) > 1)
        if case.state() == "third+edges":
            if rng.random() < .85:  # the documented order: combine the halves, then delete the symmetric identicals
                res = case.op_scale_edge()
                rec.case([res, "third+edges", meta["rings"], meta["policy"], meta["centre"], sorted(case.kinds_since)], nontrivial=len(meta["cells"]) > 1)
            case.op_remove_edge(fresh=rng.random() < .5)
            rec.case(["removeEdge", "third+edges", meta["rings"], meta["policy"], meta["centre"], []], nontrivial=len(meta["cells"]) > 1)
        rec.add("cores_built")
        rec.add("cornersUp:%s" % meta["cornersUp"])
        rec.add("rings:%d" % meta["rings"])
        rec.add("policy:%s" % meta["policy"])
