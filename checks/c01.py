"""C01 - the reactor model tree stays a well-formed tree under any edit history.

Monitors
* invariant hooks on every structural mutator (Composite.add/insert/remove/removeAll/setChildren/sort, Block.add/remove,
  Assembly.add/insert/reestablishBlockOrder, ArmiObject.__setstate__): after each call - including the calls armi makes to
  itself while building, copying or re-ordering - the touched composite must list each child once and be its parent;
* a shadow model (plain lists of objects maintained by the harness from the intended effect of each operation);
* a traversal oracle: a 12-line recursive walk that only uses ``list(node)``;
* copy/pickle isolation: identity-disjoint node sets, internal back pointers stay inside the copy.
Judged domain: valid-usage histories (DESIGN.md section 3): add/insert receive detached objects, remove receives a child.
"""
import copy
import pickle
import random

PROP = "C01"
LEVEL = "exploration"
RULE = (
    "four tree families built from real classes (generic Composite trees with grids; HexBlocks of components; HexAssemblies of blocks; "
    "reactors from generated blueprints) x histories of 10-80 operations from {add, insert, remove, re-add elsewhere, removeAll, setChildren "
    "(permutation/subset/new), sort, reestablishBlockOrder, replaceBlockWithBlock, deepcopy, pickle round trip, then edit both}; after every "
    "operation the global invariants, the shadow model and 3 random traversal queries are judged. distinct = (family, operation, query kind, "
    "tree shape signature); non-trivial = tree has >= 3 nodes."
)
FLOORS = {"quick": {"invariant.global": 3000, "shadow": 2500, "traversal": 6000, "copy.isolation": 300, "hook:Composite.add": 2000, "hook:Composite.remove": 500, "hook:ArmiObject.__setstate__": 500},
          "thorough": {"invariant.global": 60000, "shadow": 50000, "traversal": 120000, "copy.isolation": 6000, "hook:Composite.add": 40000, "hook:Composite.remove": 10000, "hook:ArmiObject.__setstate__": 10000}}
REC = [None]


def plan(tier, seed):
    q = tier == "quick"
    out = [{"name": "gen%d" % i, "family": "generic", "n": 40 if q else 800, "ops": 50} for i in range(5)]
    out += [{"name": "blk%d" % i, "family": "block", "n": 25 if q else 500, "ops": 30} for i in range(4)]
    out += [{"name": "asm%d" % i, "family": "assembly", "n": 12 if q else 250, "ops": 30} for i in range(4)]
    out += [{"name": "core%d" % i, "family": "core", "n": 3 if q else 50, "ops": 25} for i in range(3)]
    return out


# ----------------------------------------------------------------------------- hooks
def install_hooks():
    from armi.reactor import assemblies, blocks, composites
    from vlib import hooks

    def local_ok(self, where):
        rec = REC[0]
        kids = list(self)
        rec.hit("invariant.local")
        if len({id(k) for k in kids}) != len(kids):
            rec.violation("hook/child-listed-twice/" + where, "%r lists a child twice after %s" % (self, where), {"where": where})
        for k in kids:
            if k.parent is not self:
                rec.violation("hook/child-parent-mismatch/" + where, "after %s child %r of %r has parent %r" % (where, k, self, k.parent), {"where": where})
                break

    def post_factory(where, removed_arg=None):
        def post(tok, res, a, kw):
            local_ok(a[0], where)
            if removed_arg is not None:
                obj = a[removed_arg]
                if obj.parent is not None and not any(o is obj for o in obj.parent):
                    REC[0].violation("hook/removed-object-keeps-parent", "removed %r still points at parent %r" % (obj, obj.parent), {})
        return post

    hooks.wrap(composites.Composite, "add", post=post_factory("Composite.add"))
    hooks.wrap(composites.Composite, "insert", post=post_factory("Composite.insert"))
    hooks.wrap(composites.Composite, "remove", post=post_factory("Composite.remove", 1))
    hooks.wrap(composites.Composite, "removeAll", post=post_factory("Composite.removeAll"))
    hooks.wrap(composites.Composite, "setChildren", post=post_factory("Composite.setChildren"))
    hooks.wrap(composites.Composite, "sort", post=post_factory("Composite.sort"))
    hooks.wrap(blocks.Block, "add", post=post_factory("Block.add"))
    hooks.wrap(blocks.Block, "remove", post=post_factory("Block.remove", 1))
    hooks.wrap(assemblies.Assembly, "add", post=post_factory("Assembly.add"))
    hooks.wrap(assemblies.Assembly, "insert", post=post_factory("Assembly.insert"))
    hooks.wrap(assemblies.Assembly, "reestablishBlockOrder", post=post_factory("Assembly.reestablishBlockOrder"))

    def post_setstate(tok, res, a, kw):
        self = a[0]
        try:
            kids = list(self)
        except Exception:
            return
        local_ok(self, "__setstate__")
        if self.spatialGrid is not None and self.spatialGrid.armiObject is not self:
            REC[0].violation("hook/setstate-grid-owner", "after __setstate__ spatialGrid.armiObject is not self for %r" % self, {})

    hooks.wrap(composites.ArmiObject, "__setstate__", post=post_setstate, key="ArmiObject.__setstate__")


# ----------------------------------------------------------------------------- reference walk and invariants
def walk(node):
    """Naive pre-order walk using only the public iteration of each node."""
    out = []
    for c in list(node):
        out.append(c)
        out.extend(walk(c))
    return out


def generation(node, g):
    cur = [node]
    for _ in range(g):
        nxt = []
        for n in cur:
            nxt.extend(list(n))
        cur = nxt
    return cur


def same_objects(a, b):
    return len(a) == len(b) and all(x is y for x, y in zip(a, b))


def same_set(a, b):
    return len(a) == len(b) and sorted(map(id, a)) == sorted(map(id, b))


def check_global(rec, roots, detached, w):
    """Every reachable object has exactly one parent = the node listing it; grids point at their owner; detached objects are free."""
    rec.hit("invariant.global")
    seen = {}
    for root in roots:
        stack = [root]
        while stack:
            n = stack.pop()
            kids = list(n)
            if len({id(k) for k in kids}) != len(kids):
                rec.violation("tree/child-listed-twice", "%r lists a child more than once" % n, w)
            for k in kids:
                if id(k) in seen:
                    rec.violation("tree/object-has-two-parents", "%r is listed by %r and by %r" % (k, seen[id(k)], n), w)
                    continue
                seen[id(k)] = n
                if k.parent is not n:
                    rec.violation("tree/child-parent-mismatch", "%r is listed by %r but its parent is %r" % (k, n, k.parent), w)
                stack.append(k)
            g = getattr(n, "spatialGrid", None)
            if g is not None and g.armiObject is not n:
                rec.violation("tree/grid-owner-mismatch", "spatialGrid of %r is anchored to %r" % (n, g.armiObject), w)
        if root.parent is not None and id(root) not in seen and not any(root.parent is r_ for r_ in roots):
            pass
    for d in detached:
        if id(d) in seen:
            continue  # re-attached meanwhile
        if d.parent is not None:
            rec.violation("tree/removed-object-keeps-parent", "removed object %r still has parent %r" % (d, d.parent), w)
        loc = d.spatialLocator
        if loc is not None and getattr(loc, "grid", None) is not None:
            rec.violation("tree/removed-object-keeps-grid-location", "removed object %r still holds a locator in grid of %r" % (d, loc.grid.armiObject), w)
    return seen


QUERY_KINDS = ["children", "deep", "generation", "predicate", "deep-predicate", "flags", "flags-exact", "type", "components", "components-flags", "ancestor", "contains-index", "iter"]


def check_traversal(rec, rng, root, w):
    from armi.reactor.components import Component
    from armi.reactor.flags import Flags

    nodes = [root] + walk(root)
    node = rng.choice(nodes)
    kind = rng.choice(QUERY_KINDS)
    rec.hit("traversal")
    w = dict(w, query=kind, node=repr(node))
    pool = ["fuel", "clad", "duct", "coolant", "control", "shield", "bond", "wire", "intercoolant", "reflector", "plenum", "gap"]
    try:
        if kind == "children":
            got, ref = node.getChildren(), list(node)
            ok = same_objects(got, ref)
        elif kind == "iter":
            got, ref = list(node.iterChildren()), list(node)
            ok = same_objects(got, ref) and len(node) == len(ref)
        elif kind == "deep":
            got, ref = node.getChildren(deep=True), walk(node)
            ok = same_set(got, ref) and sibling_order_ok(got)
        elif kind == "generation":
            g = rng.randint(1, 4)
            got, ref = node.getChildren(generationNum=g), generation(node, g)
            ok = same_objects(got, ref) and same_objects(list(node.iterChildren(generationNum=g)), ref)
            w["generation"] = g
        elif kind in ("predicate", "deep-predicate"):
            k = rng.randint(2, 4)
            pred = lambda o, k=k: len(o.name) % k == 0
            deep = kind == "deep-predicate"
            got = node.getChildren(deep=deep, predicate=pred)
            ref = [o for o in (walk(node) if deep else list(node)) if pred(o)]
            ok = same_set(got, ref) and sibling_order_ok(got) and (deep or same_objects(got, ref))
        elif kind in ("flags", "flags-exact"):
            spec = Flags.fromString(rng.choice(pool)) if rng.random() < .7 else [Flags.fromString(rng.choice(pool)), Flags.fromString(rng.choice(pool))]
            exact = kind == "flags-exact"
            got = node.getChildrenWithFlags(spec, exactMatch=exact)
            ref = [o for o in list(node) if o.hasFlags(spec, exact)]
            ok = same_objects(got, ref) and same_objects(list(node.iterChildrenWithFlags(spec, exact)), ref)
        elif kind == "type":
            if any("type" not in o.p for o in list(node)):
                rec.skip("type-name query on generic composites without a type parameter")
                return kind
            names = [o.getType() for o in list(node)] or ["x"]
            t = rng.choice(names + ["nonexistent"])
            got, ref = node.getChildrenOfType(t), [o for o in list(node) if o.getType() == t]
            ok = same_objects(got, ref)
        elif kind in ("components", "components-flags"):
            spec = None if kind == "components" else Flags.fromString(rng.choice(pool))
            exact = rng.random() < .5
            got = node.getComponents(spec, exact)
            everything = ([node] if isinstance(node, Component) else []) + walk(node)
            ref = [o for o in everything if isinstance(o, Component) and o.hasFlags(spec, exact)]
            ok = same_objects(got, ref) and same_objects(list(node.iterComponents(spec, exact)), ref)
        elif kind == "ancestor":
            chain = []
            n = node
            while n is not None:
                chain.append(n)
                n = n.parent
            k = rng.randint(2, 5)
            pred = lambda o, k=k: len(o.name) % k == 1
            ref = next(((o, i) for i, o in enumerate(chain) if pred(o)), None)
            got = node.getAncestor(pred)
            got2 = node.getAncestorAndDistance(pred)
            ok = (got is (ref[0] if ref else None)) and ((got2 is None and ref is None) or (got2 is not None and ref is not None and got2[0] is ref[0] and got2[1] == ref[1]))
            spec = Flags.fromString(rng.choice(pool))
            refF = next((o for o in chain if o.hasFlags(spec)), None)
            ok = ok and node.getAncestorWithFlags(spec) is refF
            ref, got = (ref, refF), (got, got2)
        else:  # contains / index
            kids = list(node)
            other = rng.choice(nodes)
            ok = (other in node) == any(other is k for k in kids)
            if kids:
                i = rng.randrange(len(kids))
                ok = ok and node.index(kids[i]) == next(j for j, k in enumerate(kids) if k is kids[i]) and node[i] is kids[i]
            got, ref = None, None
        if not ok:
            rec.violation("traversal/%s-differs-from-naive-walk" % kind, "query %s on %r returned %s; naive walk gives %s" % (kind, node, short(got), short(ref)), w)
    except Exception as e:
        rec.crash("traversal/" + kind, e, w)
    return kind


def sibling_order_ok(objs):
    """objects that share a parent appear in that parent's child order"""
    pos = {}
    for o in objs:
        p = o.parent
        if p is None:
            continue
        kids = list(p)
        idx = next((j for j, k in enumerate(kids) if k is o), None)
        if idx is None:
            return False
        if pos.get(id(p), -1) >= idx:
            return False
        pos[id(p)] = idx
    return True


def short(x):
    try:
        return [getattr(o, "name", repr(o)) for o in x][:12]
    except TypeError:
        return repr(x)[:200]


def shape(node):
    # "equal-shaped": same classes and child structure; names are compared below the copied root only where armi keeps them
    # (Core.__deepcopy__ renames the copy "<name>-copy" by design, assemblies are renamed by makeUnique)
    return (type(node).__name__, [shape(c) for c in list(node)])


def shape_sig(node):
    kids = list(node)
    return [type(node).__name__, len(kids), sorted({len(list(k)) for k in kids})[:4]]


def all_parts(node):
    """ids of every object a copy must not share: nodes, parameter collections, grids, locators, materials"""
    ids = {}
    for n in [node] + walk(node):
        ids[id(n)] = ("node", n)
        ids[id(n.p)] = ("params", n)
        if n.spatialGrid is not None:
            ids[id(n.spatialGrid)] = ("grid", n)
        if n.spatialLocator is not None:
            ids[id(n.spatialLocator)] = ("locator", n)
        m = getattr(n, "material", None)
        if m is not None:
            ids[id(m)] = ("material", n)
    return ids


def check_copy(rec, orig, cp, how, w):
    rec.hit("copy.isolation")
    w = dict(w, copy=how)
    try:
        if shape(orig) != shape(cp):
            rec.violation("copy/%s/shape-differs" % how, "copy has a different shape/names than the original", w)
            return
        a, b = all_parts(orig), all_parts(cp)
        shared = set(a) & set(b)
        if shared:
            kinds = sorted({a[i][0] for i in shared})
            rec.violation("copy/%s/shares-%s" % (how, "+".join(kinds)), "copy shares %d objects with the original (%s), e.g. of %r" % (len(shared), kinds, a[next(iter(shared))][1]), w)
        if cp.parent is not None:
            rec.violation("copy/%s/copy-keeps-parent" % how, "copied subtree root points at parent %r" % cp.parent, w)
        inside = {id(n) for n in [cp] + walk(cp)}
        for n in [cp] + walk(cp):
            for k in list(n):
                if k.parent is not n:
                    rec.violation("copy/%s/child-not-relinked" % how, "in the copy %r lists %r whose parent is %r" % (n, k, k.parent), w)
                    return
            if n.spatialGrid is not None:
                if n.spatialGrid.armiObject is not n:
                    rec.violation("copy/%s/grid-not-relinked" % how, "in the copy the grid of %r is anchored to %r" % (n, n.spatialGrid.armiObject), w)
                    return
                for k in list(n):
                    g = getattr(k.spatialLocator, "grid", None)
                    if g is not None and g is not n.spatialGrid and not any(g is x.spatialGrid for x in [cp] + walk(cp)):
                        rec.violation("copy/%s/locator-points-outside" % how, "child %r of the copy holds a locator in a grid outside the copy" % k, w)
                        return
            m = getattr(n, "material", None)
            if m is not None and getattr(m, "parent", None) is not None and id(m.parent) not in inside:
                rec.violation("copy/%s/material-parent-outside" % how, "material of %r points at a component outside the copy" % n, w)
                return
    except Exception as e:
        rec.crash("copy-check/" + how, e, w)


# ----------------------------------------------------------------------------- families
COUNTER = [0]
NAMES = ["fuel", "clad", "duct", "coolant", "control", "shield", "bond", "wire", "plenum", "gap", "reflector", "intercoolant"]


def new_generic(rng, depth=0):
    from armi.reactor import composites, grids
    from armi.reactor.flags import Flags

    COUNTER[0] += 1
    nm = "%s%d" % (rng.choice(NAMES), COUNTER[0])
    c = composites.Composite(nm)
    c.p.flags = Flags.fromStringIgnoreErrors(rng.choice(NAMES) + (" " + rng.choice(NAMES) if rng.random() < .3 else ""))
    if rng.random() < .6:
        c.spatialGrid = grids.CartesianGrid.fromRectangle(1.0, 1.0, numRings=2, armiObject=c)
    if depth < 2:
        for _ in range(rng.randint(0, 3)):
            attach(rng, c, new_generic(rng, depth + 1))
    return c


def attach(rng, parent, child, index=None):
    """valid usage: detached child gets a locator of the parent's grid (as armi's own builders do), then add/insert"""
    if type(child).__name__ == "DerivedShape" and any(type(k).__name__ == "DerivedShape" for k in parent):
        raise SkipOp()  # at most one DerivedShape per parent (see the block family)
    if parent.spatialGrid is not None:
        used = {(k.spatialLocator.i, k.spatialLocator.j) for k in list(parent) if k.spatialLocator is not None and getattr(k.spatialLocator, "grid", None) is parent.spatialGrid}
        while True:
            ij = (rng.randint(-6, 6), rng.randint(-6, 6))
            if ij not in used:
                break
        child.spatialLocator = parent.spatialGrid[ij[0], ij[1], 0]
    if index is None:
        parent.add(child)
    else:
        parent.insert(index, child)


def new_component(rng):
    from armi.reactor import components

    COUNTER[0] += 1
    nm = rng.choice(["fuel", "clad", "wire", "bond", "liner", "shield"])
    od = rng.uniform(.2, 1.0)
    return components.Circle("%s%d" % (nm, COUNTER[0]), rng.choice(["HT9", "UZr", "Sodium", "B4C"]), 25.0, 25.0, od=od, id=od * rng.uniform(0, .8), mult=rng.choice([1, 7, 19]))


def run_shard(spec, rec):
    REC[0] = rec
    install_hooks()
    fam = spec["family"]
    for i in range(spec["n"]):
        rng = random.Random("%s:%d" % (spec["rng"], i))
        try:
            one_history(rec, rng, fam, spec["ops"], i)
        except Exception as e:
            rec.crash("history(harness?)/" + fam, e, {"family": fam, "case": i})


def make_root(rng, fam):
    from vlib import gen

    if fam == "generic":
        return new_generic(rng), None
    if fam == "block":
        bs = gen.pin_block_spec(rng, kind=rng.choice(["fuel", "control", "shield", "plenum"])) if rng.random() < .7 else gen.generic_block_spec(rng)
        return gen.build_block(bs, 10.0), None
    if fam == "assembly":
        pitch = rng.uniform(8, 14)
        nb = rng.randint(1, 5)
        return gen.build_assembly([gen.pin_block_spec(rng, kind=rng.choice(["fuel", "shield", "control"]), pitch=pitch, npins=rng.choice([1, 7, 19])) for _ in range(nb)], [rng.uniform(5, 30) for _ in range(nb)]), pitch
    cs_ = gen.core_spec(rng, rings=rng.randint(2, 3), symmetry=rng.choice(["third periodic", "full"]), ndesigns=rng.randint(1, 2), nblocks=rng.randint(1, 3))
    r, cs, bp, text = gen.build_reactor(cs_)
    return r, None


def one_history(rec, rng, fam, nops, case):
    from armi.reactor import assemblies, blocks, composites
    from armi.reactor.components import Component
    from vlib import gen

    root, aux = make_root(rng, fam)
    roots = [root]
    detached = []
    hist = []
    w = {"family": fam, "case": case, "history": hist}
    check_global(rec, roots, detached, w)

    def containers(r_):
        return [n for n in [r_] + walk(r_) if not isinstance(n, Component)]

    for step in range(nops):
        tree = rng.choice(roots)
        conts = containers(tree)
        if fam == "core":
            from armi.reactor.reactors import Core

            cores = [n for n in conts if isinstance(n, Core)]
            target = rng.choice(cores) if cores and rng.random() < .6 else rng.choice(conts)
        else:
            target = rng.choice(conts) if conts else tree
        kids = list(target)
        op = rng.choice(["add", "add", "insert", "remove", "remove", "readd", "removeAll", "setChildren", "sort", "deepcopy", "pickle", "special"])
        model = None
        try:
            if isinstance(target, Component):
                continue
            from armi.reactor.reactors import Core, Reactor

            if isinstance(target, Reactor) or type(target).__name__ in ("SpentFuelPool", "ExcoreStructure"):
                if op in ("deepcopy",) and isinstance(target, Reactor) and rng.random() < .5 and len(roots) < 3:
                    cp = copy.deepcopy(target)
                    hist.append("deepcopy(reactor)")
                    check_copy(rec, target, cp, "deepcopy", w)
                    roots.append(cp)
                elif op == "sort" and isinstance(target, Reactor):
                    before = {id(n) for n in walk(target)}
                    target.sort()
                    hist.append("sort(reactor)")
                    if {id(n) for n in walk(target)} != before:
                        rec.violation("sort/changed-node-set", "Reactor.sort changed the set of objects in the tree", w)
                else:
                    continue
            elif isinstance(target, Core):
                model = core_op(rec, rng, target, op, hist, detached, roots, w)
            elif isinstance(target, assemblies.Assembly):
                model = assembly_op(rec, rng, target, op, hist, detached, roots, w, gen, aux)
            elif isinstance(target, blocks.Block):
                model = block_op(rec, rng, target, op, hist, detached, roots, w, gen)
            else:
                model = generic_op(rec, rng, target, op, hist, detached, roots, w, tree)
        except SkipOp:
            continue
        except ValueError as e:
            if "no valid pitch defining component" in str(e):
                # an earlier edit removed the component that defines the block pitch; armi refuses geometry-dependent
                # operations (sorting by size, symmetry factors on Core.add) on such a block. The call may have mutated
                # before refusing (documented gotcha), so this history ends here.
                rec.reject("operation refused on a block without pitch-defining component")
                return
            rec.crash("op/%s/%s" % (fam, op), e, dict(w, target=repr(target)))
            return
        except Exception as e:
            rec.crash("op/%s/%s" % (fam, op), e, dict(w, target=repr(target)))
            return
        if model is not None:
            rec.hit("shadow")
            mode, exp = model
            got = list(target)
            if (mode == "ordered" and not same_objects(got, exp)) or (mode == "set" and not same_set(got, exp)):
                rec.violation("shadow/children-differ-after-%s" % hist[-1].split("(")[0], "after %s children of %r are %s, intended %s" % (hist[-1], target, short(got), short(exp)), w)
        check_global(rec, roots, detached, w)
        qk = [check_traversal(rec, rng, rng.choice(roots), w) for _ in range(3)]
        rec.case([fam, hist[-1].split("(")[0] if hist else "noop", qk, shape_sig(root)], nontrivial=len(walk(root)) >= 2,
                 sample={"family": fam, "history": list(hist), "shape": shape_sig(root)} if case == 0 and step == 8 else None)


class SkipOp(Exception):
    pass


def generic_op(rec, rng, t, op, hist, detached, roots, w, tree):
    kids = list(t)
    if op == "add":
        c = new_generic(rng, 2)
        attach(rng, t, c)
        hist.append("add")
        return "ordered", kids + [c]
    if op == "insert":
        c = new_generic(rng, 2)
        i = rng.randint(0, len(kids))
        attach(rng, t, c, index=i)
        hist.append("insert(%d)" % i)
        return "ordered", kids[:i] + [c] + kids[i:]
    if op == "remove" and kids:
        c = rng.choice(kids)
        t.remove(c)
        detached.append(c)
        hist.append("remove")
        return "ordered", [k for k in kids if k is not c]
    if op == "readd" and detached:
        c = rng.choice(detached)
        if c.parent is not None or any(t is n for n in [c] + walk(c)):
            raise SkipOp()
        attach(rng, t, c)
        detached[:] = [d for d in detached if d is not c]
        hist.append("re-add-elsewhere")
        return "ordered", kids + [c]
    if op == "removeAll":
        t.removeAll()
        detached.extend(kids)
        hist.append("removeAll")
        return "ordered", []
    if op == "setChildren":
        keep = rng.sample(kids, rng.randint(0, len(kids)))
        rng.shuffle(keep)
        fresh = [new_generic(rng, 2) for _ in range(rng.randint(0, 2))]
        if t.spatialGrid is not None:
            for j, c in enumerate(fresh):
                c.spatialLocator = t.spatialGrid[7 + j, 7, 0]
        items = keep + fresh
        t.setChildren(items)
        if t.spatialGrid is not None:  # removeAll detached the kept children's locators: re-place them like a builder would
            for j, c in enumerate(keep):
                c.spatialLocator = t.spatialGrid[-7, j - 6, 0]
        detached.extend(k for k in kids if not any(k is x for x in keep))
        hist.append("setChildren(keep=%d,new=%d)" % (len(keep), len(fresh)))
        return "ordered", items
    if op == "sort":
        try:
            t.sort()
        except ValueError:
            rec.reject("sort refused: children not comparable (different grids)")
            hist.append("sort-refused")
            return "set", kids
        hist.append("sort")
        got = list(t)
        for a, b in zip(got, got[1:]):
            if b < a:
                rec.violation("sort/not-ordered", "after sort %r precedes %r although it compares greater" % (a, b), w)
                break
        return "set", kids
    if op in ("deepcopy", "pickle") and len(roots) < 4:
        cp = copy.deepcopy(t) if op == "deepcopy" else pickle.loads(pickle.dumps(t))
        hist.append(op)
        check_copy(rec, t, cp, op, w)
        roots.append(cp)
        return "ordered", kids
    raise SkipOp()


def block_op(rec, rng, b, op, hist, detached, roots, w, gen):
    kids = list(b)
    if op in ("add", "insert"):
        c = new_component(rng)
        if op == "add":
            b.add(c)
            hist.append("block.add")
            return "ordered", kids + [c]
        i = rng.randint(0, len(kids))
        b.insert(i, c)
        hist.append("block.insert(%d)" % i)
        return "ordered", kids[:i] + [c] + kids[i:]
    if op == "remove" and len(kids) > 1:
        c = rng.choice(kids)
        b.remove(c, recomputeAreaFractions=False)
        detached.append(c)
        hist.append("block.remove")
        return "ordered", [k for k in kids if k is not c]
    if op == "readd":
        cands = [d for d in detached if d.parent is None and type(d).__name__ in ("Circle", "Hexagon", "Helix", "DerivedShape")]
        if not cands:
            raise SkipOp()
        c = rng.choice(cands)
        if type(c).__name__ == "DerivedShape" and any(type(k).__name__ == "DerivedShape" for k in b):
            # a block holds at most one DerivedShape (it is "whatever the others leave"; two of them define each other and armi
            # recurses without end when asked for a volume): not a model the property speaks about
            raise SkipOp()
        b.add(c)
        detached[:] = [d for d in detached if d is not c]
        hist.append("block.re-add-elsewhere")
        return "ordered", kids + [c]
    if op == "setChildren":
        keep = rng.sample(kids, rng.randint(1, len(kids)))
        rng.shuffle(keep)
        items = keep + [new_component(rng) for _ in range(rng.randint(0, 2))]
        b.setChildren(items)
        detached.extend(k for k in kids if not any(k is x for x in keep))
        hist.append("block.setChildren")
        return "ordered", items
    if op == "special":
        other = gen.build_block(gen.pin_block_spec(rng, kind=rng.choice(["control", "fuel"])), 10.0)
        n_other = [c.name for c in other]
        b.replaceBlockWithBlock(other)
        detached.extend(kids)
        hist.append("replaceBlockWithBlock")
        got = list(b)
        if [c.name for c in got] != n_other:
            rec.violation("replaceBlockWithBlock/children", "after replacement block holds %s, replacement had %s" % ([c.name for c in got], n_other), w)
        if any(any(x is y for y in other) for x in got):
            rec.violation("replaceBlockWithBlock/shares-components", "replaced block shares component objects with the replacement block", w)
        return "ordered", got
    if op in ("deepcopy", "pickle") and len(roots) < 4:
        cp = copy.deepcopy(b) if op == "deepcopy" else pickle.loads(pickle.dumps(b))
        hist.append("block." + op)
        check_copy(rec, b, cp, op, w)
        roots.append(cp)
        return "ordered", kids
    raise SkipOp()


def assembly_op(rec, rng, a, op, hist, detached, roots, w, gen, pitch):
    from armi.reactor import blocks as blk

    kids = list(a)
    pitch = pitch or (kids[0].getPitch() if kids else 10.0)

    def new_block():
        return gen.build_block(gen.pin_block_spec(rng, kind=rng.choice(["fuel", "shield"]), pitch=pitch, npins=rng.choice([1, 7])), rng.uniform(5, 20))

    if op == "add":
        b = new_block()
        a.add(b)
        hist.append("assembly.add")
        exp = kids + [b]
    elif op == "insert":
        b = new_block()
        i = rng.randint(0, len(kids))
        a.insert(i, b)
        a.reestablishBlockOrder()
        a.calculateZCoords()
        hist.append("assembly.insert(%d)+reestablishBlockOrder" % i)
        exp = kids[:i] + [b] + kids[i:]
    elif op == "remove" and len(kids) > 1:
        b = rng.choice(kids)
        a.remove(b)
        a.reestablishBlockOrder()
        a.calculateZCoords()
        detached.append(b)
        hist.append("assembly.remove+reestablishBlockOrder")
        exp = [k for k in kids if k is not b]
    elif op == "readd":
        cands = [d for d in detached if d.parent is None and isinstance(d, blk.Block)]
        if not cands:
            raise SkipOp()
        b = rng.choice(cands)
        a.add(b)
        detached[:] = [d for d in detached if d is not b]
        hist.append("assembly.re-add-elsewhere")
        exp = kids + [b]
    elif op == "sort":
        a.sort()
        hist.append("assembly.sort")
        exp = kids  # blocks already in axial order after reestablishBlockOrder
    elif op == "special":
        a.reestablishBlockOrder()
        hist.append("reestablishBlockOrder")
        exp = kids
    elif op in ("deepcopy", "pickle") and len(roots) < 4:
        cp = copy.deepcopy(a) if op == "deepcopy" else pickle.loads(pickle.dumps(a))
        hist.append("assembly." + op)
        check_copy(rec, a, cp, op, w)
        if a.parent is None:
            roots.append(cp)
        else:
            detached.append(cp)
        exp = kids
    else:
        raise SkipOp()
    # axial locators follow the child order
    for zi, b in enumerate(list(a)):
        loc = b.spatialLocator
        if loc.grid is not a.spatialGrid or (loc.i, loc.j, loc.k) != (0, 0, zi):
            rec.violation("assembly/block-locator-not-its-index", "after %s block #%d holds locator %r (grid is assembly grid: %s)" % (hist[-1], zi, loc, loc.grid is a.spatialGrid), w)
            break
    return "ordered", exp


def core_op(rec, rng, core, op, hist, detached, roots, w):
    from armi.reactor import assemblies

    kids = list(core)
    if op in ("remove",) and len(kids) > 1:
        a = rng.choice(kids)
        discharge = rng.random() < .5
        core.removeAssembly(a, discharge=discharge)
        hist.append("core.removeAssembly(discharge=%s)" % discharge)
        if not discharge:
            detached.append(a)
        else:
            if a.parent is None:
                detached.append(a)
        return "set", [k for k in kids if k is not a]
    if op in ("add", "readd", "insert"):
        cands = [d for d in detached if d.parent is None and isinstance(d, assemblies.Assembly)]
        occupied = {tuple(k.spatialLocator.getCompleteIndices()[:2]) for k in kids}
        free = [(i, j) for i in range(-3, 4) for j in range(-3, 4) if (i, j) not in occupied and max(abs(i), abs(j), abs(i + j)) <= 3 and core.spatialGrid.locatorInDomain(core.spatialGrid[i, j, 0])]
        if not free:
            raise SkipOp()
        if cands and rng.random() < .7:
            a = rng.choice(cands)
            detached[:] = [d for d in detached if d is not a]
            how = "core.add(previously removed)"
        else:
            src = rng.choice(kids)
            a = copy.deepcopy(src)
            check_copy(rec, src, a, "deepcopy", w)
            a.makeUnique()
            how = "core.add(deep copy made unique)"
        ij = rng.choice(free)
        if core.assembliesByName.get(a.getName()) not in (None, a):
            a.makeUnique()  # valid usage: a copy must get its own identity before it joins the core
            how += "+makeUnique"
        core.add(a, core.spatialGrid[ij[0], ij[1], 0])
        hist.append(how)
        return "set", kids + [a]
    if op == "sort":
        core.sort()
        hist.append("core.sort")
        return "set", kids
    if op in ("deepcopy", "pickle"):
        a = rng.choice(kids)
        cp = copy.deepcopy(a) if op == "deepcopy" else pickle.loads(pickle.dumps(a))
        hist.append("assembly-in-core." + op)
        check_copy(rec, a, cp, op, w)
        detached.append(cp)
        return "set", kids
    raise SkipOp()
