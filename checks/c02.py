"""C02 - mass, volume and number densities are accounted consistently at every level.

Workload: generated blocks (all extruded shapes, multiplicities, library materials), assemblies and
third-/full-core reactors built from generated blueprints (symmetry factors 1 and 3), driven through
random composition-edit histories interleaved with temperature and height changes.
Monitors: after every edit an *additivity ledger* recomputes, from public getters of the leaves only,
what each parent must report (mass, volume, N*V), and a *read-back oracle* checks the law of the edit.
"""
import math
import random

PROP = "C02"
LEVEL = "exploration"
RULE = (
    "blocks from vlib.gen (pin-type and arbitrary-shape blocks), assemblies of them, generated hex cores (third periodic / full); each "
    "driven through 10-30 edits drawn from {setNumberDensity(ies), updateNumberDensities, changeNDensByFactor, setMass, addMass, removeMass, "
    "setMassFrac(s), adjustMassFrac, clearNumberDensities, Component.setTemperature, Block.setHeight} at component/block/assembly/core level. "
    "A case = one edit on one object followed by the ledger; distinct = (level, operation, nuclide class, block layout signature); non-trivial = "
    "the object has >=2 children holding different materials."
)
TOLERANCES = {"additivity_rel": 1e-10, "readback_rel": 1e-10, "unchanged_rel": 1e-12, "massfrac_sum_abs": 1e-10, "inverse_rel": 1e-12}
FLOORS = {"quick": {"ledger.block": 3000, "ledger.assembly": 300, "ledger.core": 40, "edit.block-symmetry-factor-3": 20, "readback": 2000, "others-unchanged": 1000, "massfrac": 300, "densityTools": 500, "selection": 1000},
          "thorough": {"ledger.block": 60000, "ledger.assembly": 6000, "ledger.core": 800, "edit.block-symmetry-factor-3": 400, "readback": 40000, "others-unchanged": 20000, "massfrac": 6000, "densityTools": 10000, "selection": 20000}}
AVOGADRO_FACTOR = None  # taken from armi.utils.units at run time (a constant of nature, not code under test)


def plan(tier, seed):
    q = tier == "quick"
    out = [{"name": "blk%d" % i, "kind": "blocks", "n": 25 if q else 400, "edits": 25} for i in range(8)]
    out += [{"name": "asm%d" % i, "kind": "assemblies", "n": 6 if q else 120, "edits": 20} for i in range(4)]
    out += [{"name": "core%d" % i, "kind": "cores", "n": 2 if q else 30, "edits": 12} for i in range(3)]
    out += [{"name": "dtools", "kind": "densitytools", "n": 600 if q else 20000}]
    return out


def rc(a, b, rel, absol=0.0):
    return abs(a - b) <= rel * max(abs(a), abs(b)) + absol


def aw(nuc):
    from armi.nucDirectory import nuclideBases

    return nuclideBases.byName[nuc].weight


def const():
    from armi.utils import units

    return units.MOLES_PER_CC_TO_ATOMS_PER_BARN_CM


# ----------------------------------------------------------------------------- ledger (reference from leaves)
def leaves(obj):
    """(component, symmetry factor of its block) for every leaf component, by naive walk of child lists."""
    from armi.reactor.components import Component

    out = []

    def walk(o):
        if isinstance(o, Component):
            s = o.parent.getSymmetryFactor() if o.parent is not None else 1.0
            out.append((o, s))
        else:
            for c in list(o):
                walk(c)

    walk(obj)
    return out


def ledger_of(obj):
    """Reference totals from leaves: volume, atoms per nuclide (N*V), mass per nuclide."""
    vol = 0.0
    atoms = {}
    for c, s in leaves(obj):
        v = c.getVolume() / s
        vol += v
        for nuc, n in c.p.numberDensities.items():
            atoms[nuc] = atoms.get(nuc, 0.0) + n * v
    return vol, atoms


def check_ledger(rec, obj, level, w, selections=None, rng=None):
    from armi.reactor.components import Component

    rec.hit("ledger." + level)
    tolr = TOLERANCES["additivity_rel"]
    try:
        vol, atoms = ledger_of(obj)
        V = obj.getVolume()
        if not rc(V, vol, tolr):
            rec.violation("additivity/volume/%s" % level, "%s.getVolume()=%r, sum of leaf volumes / symmetry factor = %r" % (level, V, vol), w)
        kids = list(obj)
        if kids and not isinstance(obj, Component):
            sv = sum(k.getVolume() for k in kids)
            sfac = obj.getSymmetryFactor() if level == "block" else 1.0
            if not rc(V, sv / sfac, tolr):
                rec.violation("additivity/volume-children/%s" % level, "%s volume %r vs sum(children)/symmetry %r" % (level, V, sv / sfac), w)
        # number density = volume weighted mean: N*V == sum of leaf N*V
        nucs = sorted(atoms)
        if nucs:
            nd = obj.getNuclideNumberDensities(nucs)
            ndd = obj.getNumberDensities()
            for nuc, n in zip(nucs, nd):
                if not rc(n * V, atoms[nuc], tolr, 1e-30):
                    rec.violation("additivity/atoms/%s" % level, "%s: N(%s)*V=%r, leaves hold %r" % (level, nuc, n * V, atoms[nuc]), dict(w, nuclide=nuc))
                    break
                if not rc(ndd.get(nuc, 0.0), n, 1e-13, 1e-300):
                    rec.violation("getter-disagreement/ndens/%s" % level, "getNumberDensities()[%s]=%r vs getNuclideNumberDensities %r" % (nuc, ndd.get(nuc), n), w)
                    break
            one = nucs[len(nucs) // 2]
            if not rc(obj.getNumberDensity(one), nd[nucs.index(one)], 1e-13, 1e-300):
                rec.violation("getter-disagreement/getNumberDensity/%s" % level, "getNumberDensity(%s) differs from getNuclideNumberDensities" % one, w)
            if not rc(obj.getNumberOfAtoms(one), nd[nucs.index(one)] * V * 1e24, 1e-12, 1e-30):
                rec.violation("atoms/getNumberOfAtoms/%s" % level, "getNumberOfAtoms(%s)=%r, N*V/cm2-per-barn=%r" % (one, obj.getNumberOfAtoms(one), nd[nucs.index(one)] * V * 1e24), w)
        # mass: total and per nuclide = sum over leaves of N*V*A/const ; and = sum of children's
        K = const()
        mref = {nuc: a * aw(nuc) / K for nuc, a in atoms.items()}
        mtot = sum(mref.values())
        M = obj.getMass()
        if not rc(M, mtot, tolr, 1e-30):
            rec.violation("additivity/mass-total/%s" % level, "%s.getMass()=%r, leaves hold %r" % (level, M, mtot), w)
        if kids and not isinstance(obj, Component):
            sm = sum(k.getMass() for k in kids)
            if not rc(M, sm, tolr, 1e-30):
                rec.violation("additivity/mass-children/%s" % level, "%s mass %r vs sum(children) %r" % (level, M, sm), w)
        # mass = density x volume
        if not isinstance(obj, Component):
            rho = obj.density()
            if not rc(rho * V, M, tolr, 1e-30):
                rec.violation("mass-vs-density-volume/%s" % level, "density %r x volume %r = %r, getMass %r" % (rho, V, rho * V, M), w)
        else:
            s = obj.parent.getSymmetryFactor() if obj.parent is not None else 1.0
            if not rc(obj.density() * V / s, M, tolr, 1e-30):
                rec.violation("mass-vs-density-volume/component", "component density x volume / symmetry %r vs getMass %r" % (obj.density() * V / s, M), w)
        # masses of selections: nuclide, element, list, absent.  A name is resolved per object by the documented rule
        # (the name itself where that object holds it, else every isotope of the element of that symbol), so the
        # reference applies the rule leaf by leaf; parent == sum(children) is judged for every kind of selection.
        if nucs and rng is not None:
            from armi.nucDirectory import elements as el, nuclideBases as nb

            def leafmass(sel):
                tot_ = 0.0
                for c, s_ in leaves(obj):
                    v = c.getVolume() / s_
                    nd_ = c.p.numberDensities
                    names = set()
                    for one_ in ([sel] if isinstance(sel, str) else (sel if sel is not None else list(nd_))):
                        if one_ in nd_:
                            names.add(one_)
                        elif one_ in el.bySymbol:
                            names.update(n_.name for n_ in el.bySymbol[one_].nuclides if not isinstance(n_, nb.NaturalNuclideBase))
                        else:
                            names.add(one_)
                    tot_ += sum(nd_.get(n_, 0.0) * v * aw(n_) / K for n_ in names if n_ in nd_)
                return tot_

            present = set(nucs)
            for _ in range(3):
                rec.hit("selection")
                kind = rng.choice(["nuclide", "element", "list", "absent", "none"])
                if kind == "nuclide":
                    sel = rng.choice(nucs)
                elif kind == "element":
                    n0 = nb.byName[rng.choice(nucs)]
                    if getattr(n0, "element", None) is None or n0.z == 0 or n0.z > 118:
                        continue
                    sel = n0.element.symbol
                elif kind == "list":
                    sel = rng.sample(nucs, min(len(nucs), rng.randint(1, 3)))
                elif kind == "absent":
                    sel = rng.choice([x for x in ("PU239", "XE135", "AU197") if x not in present] or ["PU239"])
                else:
                    sel = None
                exp = leafmass(sel)
                got = obj.getMass(sel)
                if not rc(got, exp, tolr, 1e-30):
                    rec.violation("mass-of-selection/%s/%s" % (kind, level), "%s.getMass(%r)=%r, leaves hold %r" % (level, sel, got, exp), dict(w, selection=sel))
                if kids and not isinstance(obj, Component):
                    sm = sum(k.getMass(sel) for k in kids)
                    if not rc(got, sm, tolr, 1e-30):
                        rec.violation("additivity/mass-selection-children/%s/%s" % (kind, level), "getMass(%r)=%r vs sum(children)=%r" % (sel, got, sm), dict(w, selection=sel))
        # mass fractions sum to one
        if mtot > 0 and not isinstance(obj, Component):
            mf = obj.getMassFracs()
            tot = sum(mf.values())
            rec.hit("massfrac")
            if abs(tot - 1.0) > TOLERANCES["massfrac_sum_abs"]:
                rec.violation("massfracs-do-not-sum-to-one/%s" % level, "sum of getMassFracs() = %r" % tot, w)
            for nuc in nucs[:4]:
                if not rc(mf.get(nuc, 0.0), mref[nuc] / mtot, 1e-9, 1e-15):
                    rec.violation("massfrac-vs-masses/%s" % level, "massFrac(%s)=%r, mass ratio %r" % (nuc, mf.get(nuc), mref[nuc] / mtot), w)
                    break
    except Exception as e:
        rec.crash("ledger/" + level, e, w)


# ----------------------------------------------------------------------------- edits with read-back laws
def snapshot_nd(obj):
    nucs = sorted({n for c, _ in leaves(obj) for n in c.p.numberDensities})
    return dict(zip(nucs, obj.getNuclideNumberDensities(nucs))) if nucs else {}


def ambiguous_names(present):
    """Elemental (natural) nuclide names whose element also appears through isotopes in the same object: getMass(name)
    then resolves differently per component (documented specifier rule), so mass read-back of that *name* is not judged."""
    from armi.nucDirectory import nuclideBases as nb

    zs = {}
    for n in present:
        b = nb.byName[n]
        zs.setdefault(getattr(b, "z", None), []).append(n)
    out = set()
    for z, names in zs.items():
        if len(names) > 1 and any(isinstance(nb.byName[n], nb.NaturalNuclideBase) for n in names):
            out.update(names)
    return out


def do_edit(rec, rng, obj, level, w):
    """One composition edit on obj with its read-back law. Returns op name."""
    from armi.reactor.components import Component

    before = snapshot_nd(obj)
    present = [n for n, v in before.items() if v > 0]
    if not present:
        return "empty"
    op = rng.choice(["setNumberDensity", "setNumberDensity", "updateNumberDensities", "setNumberDensities", "changeNDensByFactor", "setMass", "addMass",
                     "removeMass", "setMassFrac", "setMassFracs", "adjustMassFrac", "clearNumberDensities"])
    nuc = rng.choice(present)
    if op in ("setMass", "addMass", "removeMass", "setMassFrac", "setMassFracs", "adjustMassFrac"):
        amb = ambiguous_names(before)
        clean = [n for n in present if n not in amb]
        if not clean:
            rec.skip("mass edit on an object mixing elemental and isotopic forms of every element present")
            return "ambiguous"
        nuc = rng.choice(clean)
        present_clean = clean
    else:
        present_clean = present
    w = dict(w, op=op, level=level, nuclide=nuc)
    tr, tu = TOLERANCES["readback_rel"], TOLERANCES["unchanged_rel"]

    def others_unchanged(changed, after):
        rec.hit("others-unchanged")
        for n, v in before.items():
            if n in changed:
                continue
            if not rc(after.get(n, 0.0), v, tu, 1e-300):
                rec.violation("edit-moved-other-nuclide/%s/%s" % (op, level), "%s(%s) changed N(%s) %r -> %r" % (op, nuc, n, v, after.get(n)), w)
                return

    try:
        if op == "setNumberDensity":
            val = before[nuc] * rng.choice([0.0, .5, 2.0, rng.uniform(.1, 3)])
            obj.setNumberDensity(nuc, val)
            after = snapshot_nd(obj)
            rec.hit("readback")
            if not rc(after.get(nuc, 0.0), val, tr, 1e-300):
                rec.violation("readback/setNumberDensity/%s" % level, "set N(%s)=%r reads %r" % (nuc, val, after.get(nuc)), w)
            others_unchanged({nuc}, after)
        elif op == "updateNumberDensities":
            sel = rng.sample(present, min(len(present), rng.randint(1, 3)))
            vals = {n: before[n] * rng.uniform(.2, 2) for n in sel}
            obj.updateNumberDensities(dict(vals))
            after = snapshot_nd(obj)
            rec.hit("readback")
            for n, v in vals.items():
                if not rc(after.get(n, 0.0), v, tr, 1e-300):
                    rec.violation("readback/updateNumberDensities/%s" % level, "update N(%s)=%r reads %r" % (n, v, after.get(n)), w)
                    break
            others_unchanged(set(vals), after)
        elif op == "setNumberDensities":
            sel = rng.sample(present, min(len(present), rng.randint(1, 4)))
            vals = {n: before[n] * rng.uniform(.2, 2) for n in sel}
            obj.setNumberDensities(dict(vals))
            after = snapshot_nd(obj)
            rec.hit("readback")
            for n in before:
                exp = vals.get(n, 0.0)
                if not rc(after.get(n, 0.0), exp, tr, 1e-300):
                    rec.violation("readback/setNumberDensities/%s" % level, "after setNumberDensities N(%s) reads %r, expected %r (unlisted -> 0)" % (n, after.get(n), exp), w)
                    break
        elif op == "changeNDensByFactor":
            f = rng.uniform(.3, 2.5)
            obj.changeNDensByFactor(f)
            after = snapshot_nd(obj)
            rec.hit("readback")
            for n, v in before.items():
                if not rc(after.get(n, 0.0), v * f, tr, 1e-300):
                    rec.violation("readback/changeNDensByFactor/%s" % level, "N(%s) %r x %r reads %r" % (n, v, f, after.get(n)), w)
                    break
        elif op in ("setMass", "addMass", "removeMass"):
            m0 = obj.getMass(nuc)
            if op == "setMass":
                m = m0 * rng.uniform(.1, 3)
                obj.setMass(nuc, m)
                exp = m
            elif op == "addMass":
                m = m0 * rng.uniform(.01, 1)
                obj.addMass(nuc, m)
                exp = m0 + m
            else:
                m = m0 * rng.uniform(.01, .9)
                obj.removeMass(nuc, m)
                exp = m0 - m
            after = snapshot_nd(obj)
            rec.hit("readback")
            got = obj.getMass(nuc)
            if not rc(got, exp, 1e-9, 1e-30):
                cut = ""
                if isinstance(obj, Component) and obj.parent is not None and obj.parent.getSymmetryFactor() != 1.0:
                    # component-level mass setters convert with the full component volume while Component.getMass reports the
                    # share inside the model (volume / symmetry factor of the block)
                    cut = "-in-symmetry-cut-block"
                rec.violation("readback/%s/%s%s" % (op, level, cut), "%s(%s,%r): mass %r -> %r, expected %r" % (op, nuc, m, m0, got, exp), w)
            others_unchanged({nuc}, after)
        elif op in ("setMassFrac", "setMassFracs"):
            if isinstance(obj, Component) and False:
                return op
            rho0 = obj.density()
            mf0 = obj.getMassFracs()
            sel = [nuc] if op == "setMassFrac" else rng.sample(present_clean, min(len(present_clean), rng.randint(1, 3)))
            tot = rng.uniform(.05, .8 if len(present) > len(sel) else 1.0)
            if len(present) == len(sel):
                tot = 1.0
            cuts = sorted(rng.random() for _ in range(len(sel) - 1))
            parts = [b - a for a, b in zip([0.0] + cuts, cuts + [1.0])]
            fr = {n: tot * p for n, p in zip(sel, parts)}
            if op == "setMassFrac":
                obj.setMassFrac(nuc, fr[nuc])
            else:
                obj.setMassFracs(dict(fr))
            mf1 = obj.getMassFracs()
            rec.hit("readback")
            for n, f in fr.items():
                if not rc(mf1.get(n, 0.0), f, 1e-9, 1e-15):
                    rec.violation("readback/%s/%s" % (op, level), "mass fraction of %s set to %r reads %r" % (n, f, mf1.get(n)), w)
                    break
            rho1 = obj.density()
            if not rc(rho1, rho0, 1e-9):
                rec.violation("setMassFracs/total-density-changed/%s" % level, "density %r -> %r" % (rho0, rho1), w)
            rest = [n for n in mf0 if n not in fr and mf0[n] > 0]
            if len(rest) >= 2:
                a, b = rest[0], rest[-1]
                if mf1.get(b, 0) > 0 and not rc(mf1[a] / mf1[b], mf0[a] / mf0[b], 1e-9):
                    rec.violation("setMassFracs/others-lost-proportion/%s" % level, "ratio %s/%s: %r -> %r" % (a, b, mf0[a] / mf0[b], mf1[a] / mf1[b]), w)
        elif op == "adjustMassFrac":
            mf0 = obj.getMassFracs()
            if sum(v for n, v in mf0.items() if n != nuc) < 1e-9:
                rec.skip("adjustMassFrac where the adjusted nuclide is (nearly) all of the mass: no other nuclide can absorb the change")
                return op
            val = rng.uniform(.01, .9)
            obj.adjustMassFrac(nuclideToAdjust=nuc, val=val)
            mf1 = obj.getMassFracs()
            rec.hit("readback")
            if not rc(mf1.get(nuc, 0.0), val, 1e-9, 1e-15):
                rec.violation("readback/adjustMassFrac/%s" % level, "adjustMassFrac(%s,%r) reads %r" % (nuc, val, mf1.get(nuc)), w)
            rest = [n for n in mf0 if n != nuc and mf0[n] > 0]
            if len(rest) >= 2 and mf1.get(rest[-1], 0) > 0:
                a, b = rest[0], rest[-1]
                if not rc(mf1[a] / mf1[b], mf0[a] / mf0[b], 1e-9):
                    rec.violation("adjustMassFrac/others-lost-proportion/%s" % level, "ratio %s/%s changed" % (a, b), w)
        elif op == "clearNumberDensities":
            from armi.utils import units

            obj.clearNumberDensities()
            after = snapshot_nd(obj)
            rec.hit("readback")
            # every nuclide stays present in the leaves that held it, at the trace level
            for c, _s in leaves(obj):
                for n, v in c.p.numberDensities.items():
                    if not (0 < v <= units.TRACE_NUMBER_DENSITY * 1.0000001 / max(c.getVolumeFraction() if c.parent is not None and len(c.parent) else 1.0, 1e-12) * 1e6):
                        rec.violation("clearNumberDensities/not-trace/%s" % level, "after clear N(%s)=%r in %s" % (n, v, c.name), w)
                        return op
            if set(after) != set(before):
                rec.violation("clearNumberDensities/forgot-nuclides/%s" % level, "nuclide set changed by clear", w)
            # restore something sensible so later edits are non-trivial
            obj.setNumberDensities({n: max(v, 1e-6) for n, v in before.items()})
    except ValueError as e:
        msg = str(e)
        if "does not exist in any children" in msg or "mass density is zero" in msg or "Invalid mass fraction" in msg:
            rec.reject("%s refused: %s" % (op, msg[:40]))
        else:
            rec.crash("edit/%s/%s" % (op, level), e, w)
    except Exception as e:
        rec.crash("edit/%s/%s" % (op, level), e, w)
    return op


def geometry_edit(rec, rng, block, w):
    from armi.materials import material as matmod

    kind = rng.choice(["temperature", "height"])
    try:
        if kind == "temperature":
            c = rng.choice(list(block))
            c.setTemperature(rng.uniform(200, 600) if not isinstance(c.material, matmod.Fluid) else rng.uniform(380, 520))
        else:
            block.setHeight(block.getHeight() * rng.uniform(.7, 1.4), conserveMass=rng.random() < .5, adjustList=list(block.getNuclides()))
    except RuntimeError as e:
        if "Linear expansion percent" in str(e):
            rec.reject("no expansion law")
        else:
            rec.crash("geometry-edit/" + kind, e, w)
    except Exception as e:
        rec.crash("geometry-edit/" + kind, e, w)
    return kind


def layout_sig(bspec):
    return [(c["shape"], c["material"], c.get("mult") if not isinstance(c.get("mult"), str) else "link") for c in bspec["components"]]


# ----------------------------------------------------------------------------- shards
def run_shard(spec, rec):
    rng = random.Random(spec["rng"])
    {"blocks": do_blocks, "assemblies": do_assemblies, "cores": do_cores, "densitytools": do_dtools}[spec["kind"]](spec, rec, rng)


def do_blocks(spec, rec, rng0):
    from vlib import gen

    for i in range(spec["n"]):
        rng = random.Random("%s:%d" % (spec["rng"], i))
        bs = gen.generic_block_spec(rng) if rng.random() < .5 else gen.pin_block_spec(rng, kind=rng.choice(["fuel", "fuel", "control", "shield", "plenum"]))
        w = {"block": bs["components"], "case": i}
        try:
            b = gen.build_block(bs, rng.uniform(5, 50))
        except Exception as e:
            rec.crash("build-block", e, w)
            continue
        sig = layout_sig(bs)
        check_ledger(rec, b, "block", w, rng=rng)
        for c in list(b)[:3]:
            check_ledger(rec, c, "component", dict(w, component=c.name))
        hist = []
        for e in range(spec["edits"]):
            r = rng.random()
            if r < .2:
                op = "geom:" + geometry_edit(rec, rng, b, dict(w, history=hist))
            elif r < .45:
                c = rng.choice(list(b))
                op = "c:" + do_edit(rec, rng, c, "component", dict(w, history=hist, component=c.name))
            else:
                op = "b:" + do_edit(rec, rng, b, "block", dict(w, history=hist))
            hist.append(op)
            check_ledger(rec, b, "block", dict(w, history=hist), rng=rng)
            rec.case(["block", op, sig], nontrivial=len({c["material"] for c in bs["components"]}) >= 2, sample={"block": bs["components"], "history": hist} if i == 0 and e == 5 else None)


def do_assemblies(spec, rec, rng0):
    from vlib import gen

    for i in range(spec["n"]):
        rng = random.Random("%s:%d" % (spec["rng"], i))
        pitch = rng.uniform(8, 16)
        nb = rng.randint(2, 6)
        bss = [gen.pin_block_spec(rng, kind=rng.choice(["fuel", "fuel", "shield", "control", "plenum"]), pitch=pitch) for _ in range(nb)]
        w = {"assembly_blocks": [bs["kind"] for bs in bss], "case": i}
        try:
            a = gen.build_assembly(bss, [rng.uniform(5, 40) for _ in range(nb)])
        except Exception as e:
            rec.crash("build-assembly", e, w)
            continue
        check_ledger(rec, a, "assembly", w, rng=rng)
        hist = []
        for e in range(spec["edits"]):
            r = rng.random()
            if r < .15:
                op = "geom:" + geometry_edit(rec, rng, rng.choice(list(a)), dict(w, history=hist))
            elif r < .45:
                op = "b:" + do_edit(rec, rng, rng.choice(list(a)), "block", dict(w, history=hist))
            else:
                op = "a:" + do_edit(rec, rng, a, "assembly", dict(w, history=hist))
            hist.append(op)
            check_ledger(rec, a, "assembly", dict(w, history=hist), rng=rng)
            for b in a:
                check_ledger(rec, b, "block", dict(w, history=hist))
            rec.case(["assembly", op, [bs["kind"] for bs in bss]], sample=dict(w, history=hist) if i == 0 and e == 3 else None)


def do_cores(spec, rec, rng0):
    from vlib import gen

    for i in range(spec["n"]):
        rng = random.Random("%s:%d" % (spec["rng"], i))
        sym = rng.choice(["third periodic", "third periodic", "full"])
        if i == 0:
            sym = "third periodic"  # every shard has at least one core with symmetry-cut blocks (floor edit.block-symmetry-factor-3)
        cspec = gen.core_spec(rng, rings=rng.randint(2, 4), symmetry=sym, ndesigns=rng.randint(1, 3), nblocks=rng.randint(2, 3))
        w = {"symmetry": sym, "map": {"%d,%d" % k: v for k, v in cspec["grids"]["core"]["contents"].items()}, "case": i}
        try:
            r, cs, bp, text = gen.build_reactor(cspec)
        except Exception as e:
            rec.crash("build-reactor", e, w)
            continue
        core = r.core
        facs = sorted({b.getSymmetryFactor() for a in core for b in a})
        rec.add("symmetry_factors_seen:" + ",".join(str(f) for f in facs))
        check_ledger(rec, core, "core", w, rng=rng)
        hist = []
        for e in range(spec["edits"]):
            r_ = rng.random()
            if r_ < .4:
                a = rng.choice(list(core))
                op = "a:" + do_edit(rec, rng, a, "assembly", dict(w, history=hist))
            elif r_ < .6:
                a = rng.choice(list(core))
                op = "b:" + do_edit(rec, rng, rng.choice(list(a)), "block", dict(w, history=hist))
            else:
                op = "core:" + do_edit(rec, rng, core, "core", dict(w, history=hist))
            hist.append(op)
            check_ledger(rec, core, "core", dict(w, history=hist), rng=rng)
            centre = core.childrenByLocator.get(core.spatialGrid[0, 0, 0])
            if centre is not None and len(centre):
                # blocks cut by symmetry lines (factor 3 at the centre of a third core): edit them directly every step
                cb = rng.choice(list(centre))
                fac = cb.getSymmetryFactor()
                rec.hit("edit.block-symmetry-factor-%g" % fac)
                hist.append("centre-b(sym %g):" % fac + do_edit(rec, rng, cb, "block", dict(w, history=hist, symmetryFactor=fac)))
                hist.append("centre-c:" + do_edit(rec, rng, rng.choice(list(cb)), "component", dict(w, history=hist, symmetryFactor=fac)))
            if centre is not None:
                check_ledger(rec, centre, "assembly", dict(w, history=hist, which="centre"), rng=rng)
                check_ledger(rec, centre[0], "block", dict(w, history=hist, which="centre"), rng=rng)
            rec.case(["core", sym, op, facs], sample=dict(w, history=hist) if i == 0 and e == 2 else None)


def do_dtools(spec, rec, rng):
    from armi.nucDirectory import nuclideBases as nb
    from armi.utils import densityTools as dt

    names = [n.name for n in nb.instances if isinstance(n, nb.NuclideBase) and n.abundance > 0][:250]
    K = const()
    for i in range(spec["n"]):
        sel = rng.sample(names, rng.randint(1, 8))
        fr = [rng.random() + 1e-3 for _ in sel]
        s = sum(fr)
        mf = {n: f / s for n, f in zip(sel, fr)}
        rho = 10 ** rng.uniform(-3, 1.3)
        w = {"rho": rho, "massFracs": mf}
        rec.hit("densityTools")
        try:
            nd = dt.getNDensFromMasses(rho, dict(mf))
            for n in sel:  # reference: N = rho * mf * K / A
                if not rc(nd[n], rho * mf[n] * K / aw(n), TOLERANCES["inverse_rel"]):
                    rec.violation("densityTools/getNDensFromMasses", "N(%s)=%r expected %r" % (n, nd[n], rho * mf[n] * K / aw(n)), w)
                    break
            back = dt.getMassFractions(dict(nd))
            if any(not rc(back[n], mf[n], TOLERANCES["inverse_rel"], 1e-16) for n in sel) or abs(sum(back.values()) - 1) > 1e-12:
                rec.violation("densityTools/massfraction-roundtrip", "getMassFractions(getNDensFromMasses(rho,mf)) != mf", w)
            if not rc(dt.calculateMassDensity(dict(nd)), rho, TOLERANCES["inverse_rel"]):
                rec.violation("densityTools/calculateMassDensity", "mass density %r expected %r" % (dt.calculateMassDensity(dict(nd)), rho), w)
            n0 = sel[0]
            vol, mass = 10 ** rng.uniform(-2, 4), 10 ** rng.uniform(-3, 5)
            N = dt.calculateNumberDensity(n0, mass, vol)
            if not rc(dt.getMassInGrams(n0, vol, N), mass, TOLERANCES["inverse_rel"]) or not rc(N, mass / vol * K / aw(n0), TOLERANCES["inverse_rel"]):
                rec.violation("densityTools/number-density-mass-roundtrip", "getMassInGrams(calculateNumberDensity(m)) = %r, m=%r" % (dt.getMassInGrams(n0, vol, N), mass), w)
        except Exception as e:
            rec.crash("densityTools", e, w)
        rec.case(["dtools", sorted(sel), round(math.log10(rho), 2)], sample=w if i < 1 else None)
