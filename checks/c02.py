"""C02 - mass, volume and number densities are accounted consistently at every level.

Workload: generated blocks (all extruded shapes, multiplicities, library materials), assemblies and
third-/full-core reactors built from generated blueprints (symmetry factors 1, 2 and 3: edge assemblies are
added to and removed from third cores by EdgeAssemblyChanger in mid-history), driven through random
composition-edit histories interleaved with temperature and height changes.
Monitors: after every edit an *additivity ledger* recomputes, from public getters of the leaves only,
what each parent must report (mass, volume, N*V), and a *read-back oracle* checks the law of the edit.
The symmetry factor used by the ledger is never armi's: it is derived from the generator's own map of the core
(hex: 3 for cell (0,0) of a third-periodic map, 2 for both members of a 0/120-degree edge pair, else 1; cartesian quarter
map through the centre assembly: 4 for cell (0,0), 2 along row 0 and column 0, else 1; full maps: 1), and the volume of every
block, assembly and core is also compared with cell area(pitch) x height / factor of the spec.
"""
import math
import random

PROP = "C02"
LEVEL = "exploration"
RULE = (
    "blocks from vlib.gen (pin-type and arbitrary-shape blocks), assemblies of them, generated hex cores (third periodic / full) and cartesian cores "
    "of square pin blocks (quarter reflective through the centre assembly / full); each "
    "driven through 10-30 edits drawn from {setNumberDensity(ies), updateNumberDensities, changeNDensByFactor, setMass, addMass, removeMass, "
    "addMasses, setMasses, setMassFrac(s), adjustMassFrac, clearNumberDensities, Component.setTemperature, Block.setHeight} at component/block/"
    "assembly/core level; about one edit in seven names a nuclide that no leaf of the object holds (composite-level update/setNumberDensities must "
    "spread it over all children, composite-level setNumberDensity/setMass/addMass may refuse, component-level setters must accept). Third cores "
    "with >=3 rings get EdgeAssemblyChanger.addEdgeAssemblies (and removeEdgeAssemblies) in mid-history; centre (hex factor 3, cartesian 4) and edge "
    "(factor 2) blocks and their components are edited directly every step. Expected symmetry factors and volumes come from the generator's map. "
    "A case = one edit on one object followed by the ledger; distinct = (level, operation, nuclide class, block layout signature); non-trivial = "
    "the object has >=2 children holding different materials."
)
TOLERANCES = {"additivity_rel": 1e-10, "readback_rel": 1e-10, "unchanged_rel": 1e-12, "massfrac_sum_abs": 1e-10, "inverse_rel": 1e-12, "spec_volume_rel": 1e-9,
              "trace_abs": 1e-40}
FLOORS = {"quick": {"one-vector-for-two-components": 150, "caller-reuses-its-vector": 250, "setMassFracs.named-take-everything": 15, "block.with-negative-volume-child": 6, "block.without-derived-shape": 8, "questions-before-audit": 800, "question.getArea(cold=True)": 120, "ledger.block": 3000, "ledger.assembly": 300, "ledger.core": 40, "ledger.component": 2500, "edit.block-symmetry-factor-3": 18,
                    "edit.block-symmetry-factor-2": 12, "ledger.component-in-block-of-factor-3": 18, "ledger.component-in-block-of-factor-2": 12,
                    "edit.cartesian-block-symmetry-factor-4": 6, "edit.cartesian-block-symmetry-factor-2": 6, "symmetry-factor.3": 45, "symmetry-factor.2": 50,
                    "symmetry-factor.cartesian-4": 12, "symmetry-factor.cartesian-2": 12, "volume-from-spec": 900, "edge-assemblies.changed": 3,
                    "readback": 2000, "readback.mass-vector": 250, "others-unchanged": 1000, "absent-nuclide.composite": 120, "absent-nuclide.component": 70,
                    "massfrac": 300, "getMasses": 6000, "getMassFrac": 3000, "densityTools": 300, "selection": 1000},
          "thorough": {"one-vector-for-two-components": 2500, "caller-reuses-its-vector": 5000, "setMassFracs.named-take-everything": 400, "block.with-negative-volume-child": 200, "block.without-derived-shape": 130, "questions-before-audit": 12000, "question.getArea(cold=True)": 2000, "ledger.block": 60000, "ledger.assembly": 6000, "ledger.core": 800, "ledger.component": 30000, "edit.block-symmetry-factor-3": 350,
                       "edit.block-symmetry-factor-2": 60, "ledger.component-in-block-of-factor-3": 350, "ledger.component-in-block-of-factor-2": 60,
                       "edit.cartesian-block-symmetry-factor-4": 60, "edit.cartesian-block-symmetry-factor-2": 60, "symmetry-factor.3": 800, "symmetry-factor.2": 250,
                       "symmetry-factor.cartesian-4": 120, "symmetry-factor.cartesian-2": 120, "volume-from-spec": 10000, "edge-assemblies.changed": 15,
                       "readback": 35000, "readback.mass-vector": 3500, "others-unchanged": 18000, "absent-nuclide.composite": 1800, "absent-nuclide.component": 900,
                       "massfrac": 6000, "getMasses": 90000, "getMassFrac": 50000, "densityTools": 10000, "selection": 20000}}
AVOGADRO_FACTOR = None  # taken from armi.utils.units at run time (a constant of nature, not code under test)


def plan(tier, seed):
    q = tier == "quick"
    out = [{"name": "blk%d" % i, "kind": "blocks", "n": 25 if q else 400, "edits": 25} for i in range(8)]
    out += [{"name": "asm%d" % i, "kind": "assemblies", "n": 6 if q else 120, "edits": 20} for i in range(4)]
    out += [{"name": "core%d" % i, "kind": "cores", "n": 2 if q else 30, "edits": 12} for i in range(3)]
    out += [{"name": "cart0", "kind": "cores", "geom": "cartesian", "n": 3 if q else 30, "edits": 12}]
    out += [{"name": "dtools", "kind": "densitytools", "n": 600 if q else 20000}]
    return out


def rc(a, b, rel, absol=0.0):
    return abs(a - b) <= rel * max(abs(a), abs(b)) + absol


def aw(nuc):
    from armi.nucDirectory import nuclideBases

    return nuclideBases.byName[nuc].weight


def const():
    from armi.utils import units

    return units.MOLES_PER_CC_TO_ATOMS_PER_BARN_CM


# ----------------------------------------------------------------------------- expected symmetry factors (generator's spec, never armi's)
EXPECT = {}  # id(block) -> (block, factor) for the blocks of the core under test; any other block is in no core: factor 1
# nuclides that no library material of vlib.gen holds (an edit that names one of them exercises the "held by no child" branches)
ABSENT_POOL = ["CS137", "SM149", "AM241", "TC99", "I129", "RH103", "GD155", "XE135", "EU153", "ND143", "PU240", "CM244", "PM147", "KR85", "SR90", "RU106",
               "AG109", "CD113", "IN115", "SN126", "SB125", "TE130", "BA138", "LA139", "CE140", "PR141"]


def xfac(block):
    """Symmetry factor the generator's spec implies for this block (1 for a block outside the registered core)."""
    e = EXPECT.get(id(block))
    return e[1] if e is not None and e[0] is block else 1.0


def hexarea(p):
    return math.sqrt(3.0) / 2.0 * p * p


def on_zero_line(i, j):
    """The centre of cell (i, j), (x, y) = (sqrt(3)/2 i, i/2 + j), lies on the ray of polar angle 0 (not the centre cell)."""
    return i > 0 and i + 2 * j == 0


def rot120(i, j):
    """Cell whose centre is the centre of (i, j) turned by +120 degrees: x' = -x/2 - sqrt(3)/2 y, y' = sqrt(3)/2 x - y/2."""
    return (-i - j, i)


def rot240(i, j):
    return (j, -i - j)


def spec_factor(cell, cells, cutkind):
    """Hex third-periodic map: 3 for the centre; 2 for both members of an edge pair (a cell on the 0-degree line and its
    image on the 120-degree line both hold an assembly); else 1.
    Cartesian quarter map through the centre assembly (cell (0,0) is centred on the origin, the symmetry planes are x=0 and y=0):
    4 for the centre, 2 for the other cells of row 0 and column 0; else 1.  Full maps: 1."""
    if cutkind == "cartesian-quarter-through-centre":
        i, j = cell
        return 4.0 if (i, j) == (0, 0) else (2.0 if i == 0 or j == 0 else 1.0)
    if cutkind != "hex-third-periodic":
        return 1.0
    if tuple(cell) == (0, 0):
        return 3.0
    if on_zero_line(*cell) and rot120(*cell) in cells:
        return 2.0
    if on_zero_line(*rot240(*cell)) and rot240(*cell) in cells:
        return 2.0
    return 1.0


def register_core(rec, core, cells, cutkind, w):
    """cell -> (assembly, expected factor) by looking every cell of the spec up in the core; registers the blocks' factors."""
    EXPECT.clear()
    amap = {}
    for cell in sorted(cells):
        a = core.childrenByLocator.get(core.spatialGrid[cell[0], cell[1], 0])
        if a is None:
            rec.violation("core/no-assembly-at-specified-cell", "no assembly at cell %r of the map" % (cell,), dict(w, cell=list(cell)))
            continue
        f = spec_factor(cell, cells, cutkind)
        amap[cell] = (a, f)
        for b in a:
            EXPECT[id(b)] = (b, f)
    if len(core) != len(amap):
        rec.violation("core/assembly-count-differs-from-map", "core holds %d assemblies, the map %d cells" % (len(core), len(amap)), w)
    return amap


def check_core_geometry(rec, core, amap, A, heights, w, tag=""):
    """Symmetry factor of every block/assembly vs the map, and volumes vs cell area (hexagon or square of the pitch) x height / factor."""
    tol = TOLERANCES["spec_volume_rel"]
    tot = 0.0
    try:
        for cell, (a, f) in sorted(amap.items()):
            wc = dict(w, cell=list(cell), expectedFactor=f)
            for k, b in enumerate(a):
                rec.hit("symmetry-factor.%s%g" % (tag, f))
                got = b.getSymmetryFactor()
                if got != f:
                    rec.violation("symmetry-factor/%sblock/expected-%g" % (tag, f), "block %d of the assembly at %r reports symmetry factor %r, the map implies %r" % (k, cell, got, f), wc)
                    break
                rec.hit("volume-from-spec")
                if k < len(heights) and not rc(b.getVolume(), A * heights[k] / f, tol):
                    rec.violation("volume/%sblock-vs-spec/factor-%g" % (tag, f), "block volume %r, cell area x height / factor = %r" % (b.getVolume(), A * heights[k] / f), wc)
                    break
            if a.getSymmetryFactor() != f:
                rec.violation("symmetry-factor/%sassembly/expected-%g" % (tag, f), "assembly at %r reports %r, the map implies %r" % (cell, a.getSymmetryFactor(), f), wc)
            ev = A * sum(heights) / f
            tot += ev
            if not rc(a.getVolume(), ev, tol):
                rec.violation("volume/%sassembly-vs-spec/factor-%g" % (tag, f), "assembly volume %r, cell area x total height / factor = %r" % (a.getVolume(), ev), wc)
        rec.hit("volume-from-spec")
        if not rc(core.getVolume(), tot, tol):
            rec.violation("volume/%score-vs-spec" % tag, "core volume %r, sum over the map of cell area x height / factor = %r" % (core.getVolume(), tot), w)
    except Exception as e:
        rec.crash("core-geometry", e, w)


# ----------------------------------------------------------------------------- ledger (reference from leaves)
def leaves(obj):
    """(component, expected symmetry factor of its block) for every leaf component, by naive walk of child lists."""
    from armi.reactor.components import Component

    out = []

    def walk(o):
        if isinstance(o, Component):
            s = xfac(o.parent) if o.parent is not None else 1.0
            out.append((o, s))
        else:
            for c in list(o):
                walk(c)

    walk(obj)
    return out


def ledger_of(obj):
    """Reference totals from leaves: volume, atoms per nuclide (N*V), mass per nuclide."""
    vol = 0.0
    atoms = {}
    for c, s in leaves(obj):
        v = c.getVolume() / s
        vol += v
        for nuc, n in c.p.numberDensities.items():
            atoms[nuc] = atoms.get(nuc, 0.0) + n * v
    return vol, atoms


def check_ledger(rec, obj, level, w, selections=None, rng=None):
    from armi.reactor.components import Component

    rec.hit("ledger." + level)
    tolr = TOLERANCES["additivity_rel"]
    try:
        vol, atoms = ledger_of(obj)
        iscomp = isinstance(obj, Component)
        # a component reports its whole volume and the mass of its share inside the model (volume / factor of its block):
        # scomp is that factor as the map implies it; V is the volume that number densities are weighted with
        scomp = (xfac(obj.parent) if obj.parent is not None else 1.0) if iscomp else 1.0
        Vfull = obj.getVolume()
        V = Vfull / scomp
        if not rc(V, vol, tolr):
            rec.violation("additivity/volume/%s" % level, "%s.getVolume()=%r, sum of leaf volumes / symmetry factor = %r" % (level, V, vol), w)
        kids = list(obj)
        if kids and not iscomp:
            sv = sum(k.getVolume() for k in kids)
            sfac = xfac(obj) if level == "block" else 1.0
            if not rc(V, sv / sfac, tolr):
                rec.violation("additivity/volume-children/%s" % level, "%s volume %r vs sum(children)/symmetry %r" % (level, V, sv / sfac), w)
        # number density = volume weighted mean: N*V == sum of leaf N*V
        nucs = sorted(atoms)
        if nucs:
            nd = obj.getNuclideNumberDensities(nucs)
            ndd = obj.getNumberDensities()
            for nuc, n in zip(nucs, nd):
                if not rc(n * V, atoms[nuc], tolr, 1e-30):
                    rec.violation("additivity/atoms/%s" % level, "%s: N(%s)*V=%r, leaves hold %r" % (level, nuc, n * V, atoms[nuc]), dict(w, nuclide=nuc))
                    break
                if not rc(ndd.get(nuc, 0.0), n, 1e-13, 1e-300):
                    rec.violation("getter-disagreement/ndens/%s" % level, "getNumberDensities()[%s]=%r vs getNuclideNumberDensities %r" % (nuc, ndd.get(nuc), n), w)
                    break
            one = nucs[len(nucs) // 2]
            if not rc(obj.getNumberDensity(one), nd[nucs.index(one)], 1e-13, 1e-300):
                rec.violation("getter-disagreement/getNumberDensity/%s" % level, "getNumberDensity(%s) differs from getNuclideNumberDensities" % one, w)
            # getNumberOfAtoms is documented as density x getVolume(): for a component that is its whole volume
            if not rc(obj.getNumberOfAtoms(one), nd[nucs.index(one)] * Vfull * 1e24, 1e-12, 1e-30):
                rec.violation("atoms/getNumberOfAtoms/%s" % level, "getNumberOfAtoms(%s)=%r, N*V/cm2-per-barn=%r" % (one, obj.getNumberOfAtoms(one), nd[nucs.index(one)] * Vfull * 1e24), w)
        # mass: total and per nuclide = sum over leaves of N*V*A/const ; and = sum of children's
        K = const()
        mref = {nuc: a * aw(nuc) / K for nuc, a in atoms.items()}
        mtot = sum(mref.values())
        M = obj.getMass()
        if not rc(M, mtot, tolr, 1e-30):
            rec.violation("additivity/mass-total/%s" % level, "%s.getMass()=%r, leaves hold %r" % (level, M, mtot), w)
        if kids and not iscomp:
            sm = sum(k.getMass() for k in kids)
            if not rc(M, sm, tolr, 1e-30):
                rec.violation("additivity/mass-children/%s" % level, "%s mass %r vs sum(children) %r" % (level, M, sm), w)
        # the vector of masses agrees, nuclide by nuclide, with what the leaves hold (and so with getMass)
        if nucs:
            rec.hit("getMasses")
            gm = obj.getMasses()
            for nuc in nucs:
                if not rc(gm.get(nuc, 0.0), mref[nuc], tolr, 1e-30):
                    if iscomp and scomp != 1.0:
                        # Component inherits Composite.getMasses, which converts with the whole component volume, while
                        # Component.getMass (and setMass/addMass) use the share inside the model: volume / factor of the block
                        key = "getMasses-vs-getMass/component-in-symmetry-cut-block"
                    else:
                        key = "getMasses/%s" % level
                    rec.violation(key, "%s.getMasses()[%s]=%r, leaves hold %r (getMass(%s)=%r)" % (level, nuc, gm.get(nuc), mref[nuc], nuc, obj.getMass(nuc)), dict(w, nuclide=nuc))
                    break
            if set(k for k, v in gm.items() if v) - set(nucs):
                rec.violation("getMasses/extra-nuclides/%s" % level, "getMasses() names nuclides no leaf holds: %r" % sorted(set(gm) - set(nucs))[:5], w)
        # mass = density x volume
        if not iscomp:
            rho = obj.density()
            if not rc(rho * V, M, tolr, 1e-30):
                rec.violation("mass-vs-density-volume/%s" % level, "density %r x volume %r = %r, getMass %r" % (rho, V, rho * V, M), w)
        elif mtot == 0.0 and nucs:
            # a component whose densities are all zero: Component.density() documents that it then reports its material's
            # density, so density x volume is not compared with the (zero) mass - but the call has to succeed
            rec.skip("mass = density x volume on a component whose number densities are all zero (density() defers to the material)")
            try:
                obj.density()
            except AttributeError as e:
                from armi.materials import material as matmod_

                kind_ = "fluid" if isinstance(obj.material, matmod_.Fluid) else "solid"
                rec.violation("crash/Component.density/zero-composition-%s-component" % kind_, "density() of a %s component (%s) with all number densities zero raised AttributeError: %s" % (kind_, type(obj.material).__name__, e), w)
        else:
            if not rc(obj.density() * V, M, tolr, 1e-30):
                rec.violation("mass-vs-density-volume/component", "component density x volume / symmetry %r vs getMass %r" % (obj.density() * V, M), w)
        # masses of selections: nuclide, element, list, absent.  A name is resolved per object by the documented rule
        # (the name itself where that object holds it, else every isotope of the element of that symbol), so the
        # reference applies the rule leaf by leaf; parent == sum(children) is judged for every kind of selection.
        if nucs and rng is not None:
            from armi.nucDirectory import elements as el, nuclideBases as nb

            def leafmass(sel):
                tot_ = 0.0
                for c, s_ in leaves(obj):
                    v = c.getVolume() / s_
                    nd_ = c.p.numberDensities
                    names = set()
                    for one_ in ([sel] if isinstance(sel, str) else (sel if sel is not None else list(nd_))):
                        if one_ in nd_:
                            names.add(one_)
                        elif one_ in el.bySymbol:
                            names.update(n_.name for n_ in el.bySymbol[one_].nuclides if not isinstance(n_, nb.NaturalNuclideBase))
                        else:
                            names.add(one_)
                    tot_ += sum(nd_.get(n_, 0.0) * v * aw(n_) / K for n_ in names if n_ in nd_)
                return tot_

            present = set(nucs)
            for _ in range(3):
                rec.hit("selection")
                kind = rng.choice(["nuclide", "element", "list", "absent", "none"])
                if kind == "nuclide":
                    sel = rng.choice(nucs)
                elif kind == "element":
                    n0 = nb.byName[rng.choice(nucs)]
                    if getattr(n0, "element", None) is None or n0.z == 0 or n0.z > 118:
                        continue
                    sel = n0.element.symbol
                elif kind == "list":
                    sel = rng.sample(nucs, min(len(nucs), rng.randint(1, 3)))
                elif kind == "absent":
                    sel = rng.choice([x for x in ("PU239", "XE135", "AU197", "NP237") if x not in present] or ["PU239"])
                else:
                    sel = None
                exp = leafmass(sel)
                got = obj.getMass(sel)
                if not rc(got, exp, tolr, 1e-30):
                    rec.violation("mass-of-selection/%s/%s" % (kind, level), "%s.getMass(%r)=%r, leaves hold %r" % (level, sel, got, exp), dict(w, selection=sel))
                if kids and not iscomp:
                    sm = sum(k.getMass(sel) for k in kids)
                    if not rc(got, sm, tolr, 1e-30):
                        rec.violation("additivity/mass-selection-children/%s/%s" % (kind, level), "getMass(%r)=%r vs sum(children)=%r" % (sel, got, sm), dict(w, selection=sel))
        # mass fractions sum to one
        if mtot > 0 and not iscomp:
            mf = obj.getMassFracs()
            tot = sum(mf.values())
            rec.hit("massfrac")
            if abs(tot - 1.0) > TOLERANCES["massfrac_sum_abs"]:
                rec.violation("massfracs-do-not-sum-to-one/%s" % level, "sum of getMassFracs() = %r" % tot, w)
            for nuc in nucs[:4]:
                if not rc(mf.get(nuc, 0.0), mref[nuc] / mtot, 1e-9, 1e-15):
                    rec.violation("massfrac-vs-masses/%s" % level, "massFrac(%s)=%r, mass ratio %r" % (nuc, mf.get(nuc), mref[nuc] / mtot), w)
                    break
            # getMassFrac of one name: a name the object holds is itself; an element symbol it does not hold as such is
            # the sum over the isotopes of that element (documented specifier rule, applied at this object's level)
            from armi.nucDirectory import nuclideBases as nb_

            rec.hit("getMassFrac")
            one = nucs[(len(nucs) * 2) // 3]
            if not rc(obj.getMassFrac(one), mref[one] / mtot, 1e-9, 1e-15):
                rec.violation("getMassFrac/nuclide/%s" % level, "getMassFrac(%s)=%r, mass ratio %r" % (one, obj.getMassFrac(one), mref[one] / mtot), dict(w, nuclide=one))
            b0 = nb_.byName[one]
            if getattr(b0, "element", None) is not None and 0 < b0.z <= 118:
                sym = b0.element.symbol
                if sym in mref:
                    exp = mref[sym] / mtot
                else:
                    iso = {n_.name for n_ in b0.element.nuclides if not isinstance(n_, nb_.NaturalNuclideBase)}
                    exp = sum(m_ for n_, m_ in mref.items() if n_ in iso) / mtot
                if not rc(obj.getMassFrac(sym), exp, 1e-9, 1e-15):
                    rec.violation("getMassFrac/element/%s" % level, "getMassFrac(%s)=%r, mass ratio of its isotopes %r" % (sym, obj.getMassFrac(sym), exp), dict(w, element=sym))
    except Exception as e:
        rec.crash("ledger/" + level, e, w)


# ----------------------------------------------------------------------------- edits with read-back laws
def snapshot_nd(obj):
    nucs = sorted({n for c, _ in leaves(obj) for n in c.p.numberDensities})
    return dict(zip(nucs, obj.getNuclideNumberDensities(nucs))) if nucs else {}


def ambiguous_names(present):
    """Elemental (natural) nuclide names whose element also appears through isotopes in the same object: getMass(name)
    then resolves differently per component (documented specifier rule), so mass read-back of that *name* is not judged."""
    from armi.nucDirectory import nuclideBases as nb

    zs = {}
    for n in present:
        b = nb.byName[n]
        zs.setdefault(getattr(b, "z", None), []).append(n)
    out = set()
    for z, names in zs.items():
        if len(names) > 1 and any(isinstance(nb.byName[n], nb.NaturalNuclideBase) for n in names):
            out.update(names)
    return out


def do_edit(rec, rng, obj, level, w):
    """One composition edit on obj with its read-back law. Returns op name."""
    from armi.reactor.components import Component

    before = snapshot_nd(obj)
    present = [n for n, v in before.items() if v > 0]
    if not present:
        return "empty"
    if rng.random() < .14:
        return absent_edit(rec, rng, obj, level, w, before)
    op = rng.choice(["setNumberDensity", "setNumberDensity", "updateNumberDensities", "setNumberDensities", "changeNDensByFactor", "setMass", "addMass",
                     "removeMass", "setMassFrac", "setMassFracs", "adjustMassFrac", "clearNumberDensities", "addMasses", "setMasses"])
    nuc = rng.choice(present)
    if op in ("setMass", "addMass", "removeMass", "setMassFrac", "setMassFracs", "adjustMassFrac", "addMasses", "setMasses"):
        amb = ambiguous_names(before)
        clean = [n for n in present if n not in amb]
        if not clean:
            rec.skip("mass edit on an object mixing elemental and isotopic forms of every element present")
            return "ambiguous"
        nuc = rng.choice(clean)
        present_clean = clean
    else:
        present_clean = present
    w = dict(w, op=op, level=level, nuclide=nuc)
    tr, tu = TOLERANCES["readback_rel"], TOLERANCES["unchanged_rel"]

    def others_unchanged(changed, after):
        rec.hit("others-unchanged")
        for n, v in before.items():
            if n in changed:
                continue
            if not rc(after.get(n, 0.0), v, tu, 1e-300):
                rec.violation("edit-moved-other-nuclide/%s/%s" % (op, level), "%s(%s) changed N(%s) %r -> %r" % (op, nuc, n, v, after.get(n)), w)
                return

    try:
        if op == "setNumberDensity":
            val = before[nuc] * rng.choice([0.0, .5, 2.0, rng.uniform(.1, 3)])
            obj.setNumberDensity(nuc, val)
            after = snapshot_nd(obj)
            rec.hit("readback")
            if not rc(after.get(nuc, 0.0), val, tr, 1e-300):
                rec.violation("readback/setNumberDensity/%s" % level, "set N(%s)=%r reads %r" % (nuc, val, after.get(nuc)), w)
            others_unchanged({nuc}, after)
        elif op == "updateNumberDensities":
            sel = rng.sample(present, min(len(present), rng.randint(1, 3)))
            vals = {n: before[n] * rng.uniform(.2, 2) for n in sel}
            given = dict(vals)
            obj.updateNumberDensities(given)
            caller_reuses_its_vector(rec, rng, given)
            after = snapshot_nd(obj)
            rec.hit("readback")
            for n, v in vals.items():
                if not rc(after.get(n, 0.0), v, tr, 1e-300):
                    rec.violation("readback/updateNumberDensities/%s" % level, "update N(%s)=%r reads %r" % (n, v, after.get(n)), w)
                    break
            others_unchanged(set(vals), after)
        elif op == "setNumberDensities":
            sel = rng.sample(present, min(len(present), rng.randint(1, 4)))
            vals = {n: before[n] * rng.uniform(.2, 2) for n in sel}
            given = dict(vals)
            obj.setNumberDensities(given)
            caller_reuses_its_vector(rec, rng, given)
            after = snapshot_nd(obj)
            rec.hit("readback")
            for n in before:
                exp = vals.get(n, 0.0)
                if not rc(after.get(n, 0.0), exp, tr, 1e-300):
                    rec.violation("readback/setNumberDensities/%s" % level, "after setNumberDensities N(%s) reads %r, expected %r (unlisted -> 0)" % (n, after.get(n), exp), w)
                    break
        elif op == "changeNDensByFactor":
            f = rng.uniform(.3, 2.5)
            obj.changeNDensByFactor(f)
            after = snapshot_nd(obj)
            rec.hit("readback")
            for n, v in before.items():
                if not rc(after.get(n, 0.0), v * f, tr, 1e-300):
                    rec.violation("readback/changeNDensByFactor/%s" % level, "N(%s) %r x %r reads %r" % (n, v, f, after.get(n)), w)
                    break
        elif op in ("setMass", "addMass", "removeMass"):
            m0 = obj.getMass(nuc)
            if op == "setMass":
                m = m0 * rng.uniform(.1, 3)
                obj.setMass(nuc, m)
                exp = m
            elif op == "addMass":
                m = m0 * rng.uniform(.01, 1)
                obj.addMass(nuc, m)
                exp = m0 + m
            else:
                m = m0 * rng.uniform(.01, .9)
                obj.removeMass(nuc, m)
                exp = m0 - m
            after = snapshot_nd(obj)
            rec.hit("readback")
            got = obj.getMass(nuc)
            if not rc(got, exp, 1e-9, 1e-30):
                cut = ""
                if isinstance(obj, Component) and obj.parent is not None and xfac(obj.parent) != 1.0:
                    # component-level mass setters convert with the full component volume while Component.getMass reports the
                    # share inside the model (volume / symmetry factor of the block)
                    cut = "-in-symmetry-cut-block"
                rec.violation("readback/%s/%s%s" % (op, level, cut), "%s(%s,%r): mass %r -> %r, expected %r" % (op, nuc, m, m0, got, exp), w)
            others_unchanged({nuc}, after)
        elif op in ("setMassFrac", "setMassFracs"):
            rho0 = obj.density()
            mf0 = obj.getMassFracs()
            sel = [nuc] if op == "setMassFrac" else rng.sample(present_clean, min(len(present_clean), rng.randint(1, 3)))
            tot = rng.uniform(.05, .8 if len(present) > len(sel) else 1.0)
            if len(present) == len(sel):
                tot = 1.0
            elif rng.random() < .12:
                tot = 1.0  # the named nuclides take everything: the unnamed ones must read zero afterwards (nothing is left to share)
                rec.hit("setMassFracs.named-take-everything")
            cuts = sorted(rng.random() for _ in range(len(sel) - 1))
            parts = [b - a for a, b in zip([0.0] + cuts, cuts + [1.0])]
            fr = {n: tot * p for n, p in zip(sel, parts)}
            if op == "setMassFrac":
                obj.setMassFrac(nuc, fr[nuc])
            else:
                obj.setMassFracs(dict(fr))
            mf1 = obj.getMassFracs()
            rec.hit("readback")
            for n, f in fr.items():
                if not rc(mf1.get(n, 0.0), f, 1e-9, 1e-15):
                    rec.violation("readback/%s/%s" % (op, level), "mass fraction of %s set to %r reads %r" % (n, f, mf1.get(n)), w)
                    break
            rho1 = obj.density()
            if not rc(rho1, rho0, 1e-9):
                rec.violation("setMassFracs/total-density-changed/%s" % level, "density %r -> %r" % (rho0, rho1), w)
            rest = [n for n in mf0 if n not in fr and mf0[n] > 0]
            if len(rest) >= 2:
                a, b = rest[0], rest[-1]
                if mf1.get(b, 0) > 0 and not rc(mf1[a] / mf1[b], mf0[a] / mf0[b], 1e-9):
                    rec.violation("setMassFracs/others-lost-proportion/%s" % level, "ratio %s/%s: %r -> %r" % (a, b, mf0[a] / mf0[b], mf1[a] / mf1[b]), w)
        elif op == "adjustMassFrac":
            mf0 = obj.getMassFracs()
            others_ = sum(v for n, v in mf0.items() if n != nuc)
            if others_ < 1e-9:
                rec.skip("adjustMassFrac where the adjusted nuclide is (nearly) all of the mass: no other nuclide can absorb the change")
                return op
            val = rng.uniform(.01, .9)
            obj.adjustMassFrac(nuclideToAdjust=nuc, val=val)
            mf1 = obj.getMassFracs()
            rec.hit("readback")
            # the others are rescaled by (1 - val) / (1 - old fraction): when they hold only 1e-8 of the mass, 1 - old is known to 1e-16 / 1e-8
            # in double precision, and so is the result (conditioning of the request, not of armi)
            if not rc(mf1.get(nuc, 0.0), val, max(1e-9, 4e-15 / others_), 1e-15):
                rec.violation("readback/adjustMassFrac/%s" % level, "adjustMassFrac(%s,%r) reads %r" % (nuc, val, mf1.get(nuc)), w)
            rest = [n for n in mf0 if n != nuc and mf0[n] > 0]
            if len(rest) >= 2 and mf1.get(rest[-1], 0) > 0:
                a, b = rest[0], rest[-1]
                if not rc(mf1[a] / mf1[b], mf0[a] / mf0[b], 1e-9):
                    rec.violation("adjustMassFrac/others-lost-proportion/%s" % level, "ratio %s/%s changed" % (a, b), w)
        elif op == "addMasses":
            sel = rng.sample(present_clean, min(len(present_clean), rng.randint(1, 3)))
            m0 = {n: obj.getMass(n) for n in sel}
            add = {n: m0[n] * rng.uniform(.01, 1) for n in sel}
            arg = dict(add)
            rest = [n for n in present_clean if n not in add]
            if rest and rng.random() < .5:
                arg[rng.choice(rest)] = 0.0  # a zero entry adds nothing
            obj.addMasses(arg)
            after = snapshot_nd(obj)
            rec.hit("readback")
            rec.hit("readback.mass-vector")
            for n in sel:
                got = obj.getMass(n)
                if not rc(got, m0[n] + add[n], 1e-9, 1e-30):
                    rec.violation("readback/addMasses/%s" % level, "addMasses: mass of %s %r + %r reads %r" % (n, m0[n], add[n], got), dict(w, masses=arg))
                    break
            others_unchanged(set(add), after)
        elif op == "setMasses":
            sel = rng.sample(present_clean, min(len(present_clean), rng.randint(1, 3)))
            arg = {n: obj.getMass(n) * rng.uniform(.1, 3) for n in sel}
            obj.setMasses(dict(arg))
            after = snapshot_nd(obj)
            rec.hit("readback")
            rec.hit("readback.mass-vector")
            for n in sel:
                got = obj.getMass(n)
                if not rc(got, arg[n], 1e-9, 1e-30):
                    rec.violation("readback/setMasses/%s" % level, "setMasses: mass of %s set to %r reads %r" % (n, arg[n], got), dict(w, masses=arg))
                    break
            # documented: everything is cleared (to the trace level, so that components remember their nuclides) before the masses are set
            for n, v in before.items():
                if n not in arg and not (0 <= after.get(n, 0.0) <= TOLERANCES["trace_abs"]):
                    rec.violation("setMasses/unlisted-nuclide-not-cleared/%s" % level, "after setMasses N(%s)=%r (was %r)" % (n, after.get(n), v), dict(w, masses=arg))
                    break
            if set(after) != set(before):
                rec.violation("setMasses/forgot-nuclides/%s" % level, "nuclide set changed by setMasses", w)
            # restore the unlisted nuclides so that later edits are non-trivial
            back = {n: max(v, 1e-6) for n, v in before.items() if n not in arg}
            if back:
                obj.updateNumberDensities(back)
        elif op == "clearNumberDensities":
            from armi.utils import units

            obj.clearNumberDensities()
            after = snapshot_nd(obj)
            rec.hit("readback")
            # every nuclide stays present in the leaves that held it, at the trace level
            for c, _s in leaves(obj):
                vf_ = c.getVolumeFraction() if c.parent is not None and len(c.parent) else 1.0
                for n, v in c.p.numberDensities.items():
                    # a child with negative volume (overlapped gap) legitimately holds densities of either sign: only their size is judged
                    if not ((0 < v or (vf_ < 0 and v != 0)) and abs(v) <= units.TRACE_NUMBER_DENSITY * 1.0000001 / max(abs(vf_), 1e-12) * 1e6):
                        rec.violation("clearNumberDensities/not-trace/%s" % level, "after clear N(%s)=%r in %s" % (n, v, c.name), w)
                        return op
            if set(after) != set(before):
                rec.violation("clearNumberDensities/forgot-nuclides/%s" % level, "nuclide set changed by clear", w)
            # restore something sensible so later edits are non-trivial
            obj.setNumberDensities({n: max(v, 1e-6) for n, v in before.items()})
    except ValueError as e:
        msg = str(e)
        if "does not exist in any children" in msg or "mass density is zero" in msg or "Invalid mass fraction" in msg:
            rec.reject("%s refused: %s" % (op, msg[:40]))
        else:
            rec.crash("edit/%s/%s" % (op, level), e, w)
    except Exception as e:
        rec.crash("edit/%s/%s" % (op, level), e, w)
    return op


def absent_edit(rec, rng, obj, level, w, before):
    """An edit that names a nuclide held by no leaf of obj.  Composite.updateNumberDensities/setNumberDensities document that such a
    nuclide is spread evenly over all children; Composite.setNumberDensity documents a refusal (and setMass/addMass/addMasses go through
    it); a component simply takes the new nuclide.  Whatever is accepted must read back at the same level (density and mass) and
    leave every other nuclide alone."""
    from armi.reactor.components import Component

    pool = [x for x in ABSENT_POOL if x not in before]
    if not pool:
        rec.skip("absent-nuclide edit: every nuclide of the pool is already held")
        return "absent:none-left"
    new = rng.choice(pool)
    iscomp = isinstance(obj, Component)
    op = rng.choice(["updateNumberDensities", "updateNumberDensities", "setNumberDensities", "setNumberDensity", "setMass", "addMass", "addMasses"] if iscomp else
                    ["updateNumberDensities", "updateNumberDensities", "updateNumberDensities", "setNumberDensities", "setNumberDensities", "setNumberDensity", "setMass", "addMass", "addMasses"])
    w = dict(w, op=op + "+absent", level=level, nuclide=new)
    tr, tu = TOLERANCES["readback_rel"], TOLERANCES["unchanged_rel"]
    present = [n for n, v in before.items() if v > 0]
    val = 10 ** rng.uniform(-8, -3)
    vol = ledger_of(obj)[0]  # volume inside the model, from the leaves and the map's symmetry factors
    K = const()
    mass_of = lambda N: N * vol * aw(new) / K
    listed = {}
    wiped = False
    try:
        if op == "updateNumberDensities":
            listed = {n: before[n] * rng.uniform(.2, 2) for n in rng.sample(present, min(len(present), rng.randint(0, 2)))}
            obj.updateNumberDensities(dict(listed, **{new: val}))
            exp = val
        elif op == "setNumberDensities":
            listed = {n: before[n] * rng.uniform(.2, 2) for n in rng.sample(present, min(len(present), rng.randint(1, 4)))}
            obj.setNumberDensities(dict(listed, **{new: val}))
            exp = val
            wiped = True
        elif op == "setNumberDensity":
            obj.setNumberDensity(new, val)
            exp = val
        else:
            m = mass_of(val)
            if op == "setMass":
                obj.setMass(new, m)
            elif op == "addMass":
                obj.addMass(new, m)
            else:
                obj.addMasses({new: m})
            exp = val
    except ValueError as e:
        if not iscomp and op not in ("updateNumberDensities", "setNumberDensities") and "does not exist in any children" in str(e):
            rec.reject("%s of a nuclide no child holds refused at composite level (documented)" % op)
            after = snapshot_nd(obj)
            rec.hit("absent-nuclide.refused-state")
            for n, v in before.items():
                if not rc(after.get(n, 0.0), v, tu, 1e-300):
                    rec.violation("refused-edit-changed-state/%s/%s" % (op, level), "%s(%s) was refused but N(%s) %r -> %r" % (op, new, n, v, after.get(n)), w)
                    break
            return "absent:" + op + ":refused"
        rec.crash("edit/%s+absent/%s" % (op, level), e, w)
        return "absent:" + op
    except Exception as e:
        rec.crash("edit/%s+absent/%s" % (op, level), e, w)
        return "absent:" + op
    try:
        after = snapshot_nd(obj)
        rec.hit("readback")
        rec.hit("absent-nuclide.%s" % ("component" if iscomp else "composite"))
        got = obj.getNumberDensity(new)
        if not rc(got, exp, tr, 1e-300) or not rc(after.get(new, 0.0), exp, tr, 1e-300):
            rec.violation("readback/%s/absent-nuclide/%s" % (op, level), "%s of %s (held by no leaf) to N=%r reads %r" % (op, new, exp, got), w)
        gotm = obj.getMass(new)
        if not rc(gotm, mass_of(exp), 1e-9, 1e-30):
            rec.violation("readback-mass/%s/absent-nuclide/%s" % (op, level), "%s of %s (held by no leaf): mass reads %r, N x V x A / const = %r" % (op, new, gotm, mass_of(exp)), w)
        for n, v in listed.items():
            if not rc(after.get(n, 0.0), v, tr, 1e-300):
                rec.violation("readback/%s/%s" % (op, level), "%s together with an absent nuclide: N(%s)=%r reads %r" % (op, n, v, after.get(n)), w)
                break
        rec.hit("others-unchanged")
        for n, v in before.items():
            if n in listed:
                continue
            e_ = 0.0 if wiped else v
            if not rc(after.get(n, 0.0), e_, tu, 1e-300):
                rec.violation("edit-moved-other-nuclide/%s/%s" % (op, level), "%s(%s, absent) changed N(%s) %r -> %r, expected %r" % (op, new, n, v, after.get(n), e_), w)
                break
        if wiped:  # keep later edits non-trivial
            obj.updateNumberDensities({n: max(v, 1e-6) for n, v in before.items() if n not in listed})
    except Exception as e:
        rec.crash("readback/%s+absent/%s" % (op, level), e, w)
    return "absent:" + op


def one_vector_for_two_components(rec, rng, block, w):
    """One composition vector (one dict object) is given to two components - inner and outer zone of the same material - and one of
    them is edited afterwards: the other one, and the caller's vector, keep their numbers."""
    from armi.reactor.components import DerivedShape

    cs_ = [c for c in block if c.p.numberDensities and not isinstance(c, DerivedShape)]
    if len(cs_) < 2:
        return "shared-vector:skipped"
    c1, c2 = rng.sample(cs_, 2)
    vec = {n: max(v, 1e-7) * rng.uniform(.5, 2) for n, v in c1.p.numberDensities.items()}
    kept = dict(vec)
    try:
        c1.setNumberDensities(vec)
        c2.setNumberDensities(vec)
        nuc = rng.choice(sorted(vec))
        how = rng.choice(["setNumberDensity", "addMass", "updateNumberDensities", "setMass", "changeNDensByFactor"])
        if how == "setNumberDensity":
            c1.setNumberDensity(nuc, vec[nuc] * 3.0)
        elif how == "addMass":
            c1.addMass(nuc, max(c1.getMass(nuc), 1e-6) * .5)
        elif how == "setMass":
            c1.setMass(nuc, max(c1.getMass(nuc), 1e-6) * 2.0)
        elif how == "updateNumberDensities":
            c1.updateNumberDensities({nuc: vec[nuc] * .25})
        else:
            c1.changeNDensByFactor(1.7)
    except Exception as e:
        rec.crash("shared-vector", e, w)
        return "shared-vector:crash"
    rec.hit("one-vector-for-two-components")
    got2 = dict(c2.p.numberDensities)
    if any(not rc(got2.get(n, 0.0), v, 1e-12, 1e-300) for n, v in kept.items()) or set(got2) != set(kept):
        rec.violation("aliasing/edit-of-one-component-changed-another-given-the-same-vector/" + how, "%s on %s changed %s (both were given one vector): %s became %s" % (
            how, c1.name, c2.name, {nuc: kept[nuc]}, {nuc: got2.get(nuc)}), dict(w, components=[c1.name, c2.name]))
    if vec != kept:
        rec.violation("aliasing/setter-kept-the-callers-vector/" + how, "%s on %s rewrote the caller's own vector" % (how, c1.name), dict(w, components=[c1.name, c2.name]))
    return "shared-vector:" + how


def caller_reuses_its_vector(rec, rng, given):
    """The dictionary handed to a setter stays the caller's: it goes on being edited (scaled, extended, emptied) for the next object.
    What the model holds is the numbers it was given at the time of the call."""
    rec.hit("caller-reuses-its-vector")
    how = rng.choice(["scale", "extend", "clear", "scale"])
    if how == "scale":
        for k in list(given):
            given[k] *= 7.0
    elif how == "extend":
        given["XE135"] = 1.0
        given["SM149"] = 2.0
    else:
        given.clear()


def read_only_questions(rec, rng, obj):
    """Questions that change nothing - cold dimensions, areas and volumes, one nuclide's density - asked between an edit and the
    audit: an answer remembered for one form of a question must never be served for another (cold for hot, one nuclide for all)."""
    asked = []
    kids = list(obj)
    qs = [("getArea(cold=True)", lambda o: o.getArea(cold=True)), ("getArea()", lambda o: o.getArea()), ("getVolume()", lambda o: o.getVolume()),
          ("getMaxArea()", lambda o: o.getMaxArea()), ("getMass()", lambda o: o.getMass()), ("getNumberDensities()", lambda o: o.getNumberDensities()),
          ("getVolumeFractions()", lambda o: o.getVolumeFractions()), ("getHeight()", lambda o: o.getHeight()),
          ("child.getArea(cold=True)", lambda o: rng.choice(kids).getArea(cold=True)), ("child.getVolume()", lambda o: rng.choice(kids).getVolume()),
          ("child.getDimension(cold=True)", lambda o: [c.getDimension(d, cold=True) for c in kids[:2] for d in c.DIMENSION_NAMES if c.p[d] is not None]),
          ("getNuclides()", lambda o: o.getNuclides()), ("getSymmetryFactor()", lambda o: o.getSymmetryFactor())]
    for name, q in rng.sample(qs, rng.randint(1, 4)):
        try:
            q(obj)
            asked.append(name)
            rec.hit("question." + name)
        except Exception:
            pass
    rec.hit("questions-before-audit")
    return ",".join(asked)


def geometry_edit(rec, rng, block, w):
    from armi.materials import material as matmod

    kind = rng.choice(["temperature", "height"])
    try:
        if kind == "temperature":
            c = rng.choice(list(block))
            c.setTemperature(rng.uniform(200, 600) if not isinstance(c.material, matmod.Fluid) else rng.uniform(380, 520))
        else:
            block.setHeight(block.getHeight() * rng.uniform(.7, 1.4), conserveMass=rng.random() < .5, adjustList=list(block.getNuclides()))
    except RuntimeError as e:
        if "Linear expansion percent" in str(e):
            rec.reject("no expansion law")
        else:
            rec.crash("geometry-edit/" + kind, e, w)
    except Exception as e:
        rec.crash("geometry-edit/" + kind, e, w)
    return kind


def layout_sig(bspec):
    return [(c["shape"], c["material"], c.get("mult") if not isinstance(c.get("mult"), str) else "link") for c in bspec["components"]]


# ----------------------------------------------------------------------------- cartesian cores (generator's own spec)
def cart_block_spec(rng, P, kind):
    """A square pin-type block of pitch P: n x n pins (fuel+bond+clad | absorber+gap+clad | solid pins), coolant (left-over shape),
    a square duct and the inter-assembly coolant out to the pitch (a fluid at its input temperature: the outer edge is exactly P)."""
    from vlib import gen

    u = rng.uniform
    n = rng.choice([1, 4, 9, 16])
    duct_o = P - u(.2, .6)
    duct_i = duct_o - 2 * P * u(.015, .03)
    cell = duct_i / math.sqrt(n)
    clad_od = cell * u(.5, .8)
    clad_id = clad_od * u(.8, .92)
    Tc, Tf, Ts = u(350, 500), u(500, 800), u(350, 500)
    smat = rng.choice(gen.STRUCT)
    cool = rng.choice(["Sodium", "Sodium", "Lead"])
    comps = []
    if kind == "fuel":
        comps.append({"name": "fuel", "shape": "Circle", "material": rng.choice(gen.FUELS), "Tinput": 25.0, "Thot": Tf, "id": 0.0, "od": clad_id * u(.75, .95), "mult": n})
        comps.append({"name": "bond", "shape": "Circle", "material": cool, "Tinput": Tc, "Thot": Tc, "id": "fuel.od", "od": "clad.id", "mult": "fuel.mult"})
        comps.append({"name": "clad", "shape": "Circle", "material": smat, "Tinput": 25.0, "Thot": Ts, "id": clad_id, "od": clad_od, "mult": "fuel.mult"})
    elif kind == "control":
        comps.append({"name": "control", "shape": "Circle", "material": "B4C", "Tinput": 25.0, "Thot": Ts, "id": 0.0, "od": clad_id * .9, "mult": n})
        comps.append({"name": "gap", "shape": "Circle", "material": "Void", "Tinput": Tc, "Thot": Tc, "id": "control.od", "od": "clad.id", "mult": "control.mult"})
        comps.append({"name": "clad", "shape": "Circle", "material": smat, "Tinput": 25.0, "Thot": Ts, "id": clad_id, "od": clad_od, "mult": "control.mult"})
    else:
        comps.append({"name": "shield", "shape": "Circle", "material": smat, "Tinput": 25.0, "Thot": Ts, "id": 0.0, "od": clad_od, "mult": n})
    comps.append({"name": "coolant", "shape": "DerivedShape", "material": cool, "Tinput": Tc, "Thot": Tc})
    comps.append({"name": "duct", "shape": "Rectangle", "material": smat, "Tinput": 25.0, "Thot": Ts, "lengthInner": duct_i, "lengthOuter": duct_o,
                  "widthInner": duct_i, "widthOuter": duct_o, "mult": 1})
    comps.append({"name": "intercoolant", "shape": "Rectangle", "material": cool, "Tinput": Tc, "Thot": Tc, "lengthInner": "duct.lengthOuter", "lengthOuter": P,
                  "widthInner": "duct.widthOuter", "widthOuter": P, "mult": 1})
    return {"components": comps, "pitch": P, "npins": n, "kind": kind}


def cart_core_spec(rng, rings, sym, ndesigns, nblocks, holes=.15):
    """A small cartesian core (square assemblies, cell (0,0) centred on the origin): a quarter map through the centre assembly
    (cells i, j >= 0) or a full map (|i|, |j| < rings), with random holes."""
    P = rng.uniform(8, 18)
    spec = {"blocks": {}, "assemblies": {}, "grids": {}}
    heights = [round(rng.uniform(8, 40), 3) for _ in range(nblocks)]
    names = ["A%d" % d for d in range(ndesigns)]
    for d in range(ndesigns):
        bnames = []
        for k in range(nblocks):
            kind = rng.choice(["fuel", "fuel", "shield", "control"])
            bn = "b%d_%d_%s" % (d, k, kind)
            spec["blocks"][bn] = cart_block_spec(rng, P, kind)
            bnames.append(bn)
        spec["assemblies"]["design%d" % d] = {"specifier": names[d], "blocks": bnames, "height": heights, "axial mesh points": [1] * nblocks,
                                              "xs types": [rng.choice("ABCD") for _ in range(nblocks)]}
    lo = 0 if sym.startswith("quarter") else -(rings - 1)
    contents = {}
    for i in range(lo, rings):
        for j in range(lo, rings):
            if (i, j) != (0, 0) and (i, j) != (1, 0) and rng.random() < holes:
                continue
            contents[(i, j)] = rng.choice(names)
    spec["grids"]["core"] = {"geom": "cartesian", "symmetry": sym, "lattice pitch": (P, P), "contents": contents}
    spec["pitch"] = P
    return spec


# ----------------------------------------------------------------------------- shards
def run_shard(spec, rec):
    rng = random.Random(spec["rng"])
    {"blocks": do_blocks, "assemblies": do_assemblies, "cores": do_cores, "densitytools": do_dtools}[spec["kind"]](spec, rec, rng)


def do_blocks(spec, rec, rng0):
    from vlib import gen

    for i in range(spec["n"]):
        rng = random.Random("%s:%d" % (spec["rng"], i))
        if rng.random() < .15:
            bs = gen.pin_block_spec(rng, kind="fuel", overlap=True)  # a child with negative volume (overlapped Void gap)
        elif rng.random() < .15:
            bs = gen.generic_block_spec(rng, derived=False)  # stated shapes only: hot and cold area totals differ
            rec.hit("block.without-derived-shape")
        else:
            bs = gen.generic_block_spec(rng) if rng.random() < .5 else gen.pin_block_spec(rng, kind=rng.choice(["fuel", "fuel", "control", "shield", "plenum"]))
        w = {"block": bs["components"], "case": i}
        try:
            b = gen.build_block(bs, rng.uniform(5, 50))
        except Exception as e:
            rec.crash("build-block", e, w)
            continue
        sig = layout_sig(bs)
        try:
            if any(c.getVolume() < 0 for c in b):
                rec.hit("block.with-negative-volume-child")
        except Exception:
            pass
        check_ledger(rec, b, "block", w, rng=rng)
        for c in list(b)[:3]:
            check_ledger(rec, c, "component", dict(w, component=c.name))
        hist = []
        for e in range(spec["edits"]):
            r = rng.random()
            if r < .2:
                op = "geom:" + geometry_edit(rec, rng, b, dict(w, history=hist))
            elif r < .45:
                c = rng.choice(list(b))
                op = "c:" + do_edit(rec, rng, c, "component", dict(w, history=hist, component=c.name))
            else:
                op = "b:" + do_edit(rec, rng, b, "block", dict(w, history=hist))
            hist.append(op)
            if rng.random() < .12:
                hist.append(one_vector_for_two_components(rec, rng, b, dict(w, history=hist)))
            if rng.random() < .35:
                hist.append("ask:" + read_only_questions(rec, rng, b))
            check_ledger(rec, b, "block", dict(w, history=hist), rng=rng)
            cc = c if op.startswith("c:") else rng.choice(list(b))
            check_ledger(rec, cc, "component", dict(w, history=hist, component=cc.name), rng=rng if e % 3 == 0 else None)
            rec.case(["block", op, sig], nontrivial=len({c["material"] for c in bs["components"]}) >= 2, sample={"block": bs["components"], "history": hist} if i == 0 and e == 5 else None)


def do_assemblies(spec, rec, rng0):
    from vlib import gen

    for i in range(spec["n"]):
        rng = random.Random("%s:%d" % (spec["rng"], i))
        pitch = rng.uniform(8, 16)
        nb = rng.randint(2, 6)
        bss = [gen.pin_block_spec(rng, kind=rng.choice(["fuel", "fuel", "shield", "control", "plenum"]), pitch=pitch) for _ in range(nb)]
        w = {"assembly_blocks": [bs["kind"] for bs in bss], "case": i}
        try:
            a = gen.build_assembly(bss, [rng.uniform(5, 40) for _ in range(nb)])
        except Exception as e:
            rec.crash("build-assembly", e, w)
            continue
        check_ledger(rec, a, "assembly", w, rng=rng)
        hist = []
        for e in range(spec["edits"]):
            r = rng.random()
            if r < .15:
                op = "geom:" + geometry_edit(rec, rng, rng.choice(list(a)), dict(w, history=hist))
            elif r < .45:
                op = "b:" + do_edit(rec, rng, rng.choice(list(a)), "block", dict(w, history=hist))
            else:
                op = "a:" + do_edit(rec, rng, a, "assembly", dict(w, history=hist))
            hist.append(op)
            check_ledger(rec, a, "assembly", dict(w, history=hist), rng=rng)
            for b in a:
                check_ledger(rec, b, "block", dict(w, history=hist))
            rec.case(["assembly", op, [bs["kind"] for bs in bss]], sample=dict(w, history=hist) if i == 0 and e == 3 else None)


def do_cores(spec, rec, rng0):
    from vlib import gen

    cart = spec.get("geom") == "cartesian"
    tag = "cartesian-" if cart else ""
    for i in range(spec["n"]):
        rng = random.Random("%s:%d" % (spec["rng"], i))
        if cart:
            sym = rng.choice(["quarter reflective through center assembly", "quarter reflective through center assembly", "full"])
            if i == 0:
                sym = "quarter reflective through center assembly"  # floors edit.cartesian-block-symmetry-factor-4 / -2
            elif i == 1:
                sym = "full"  # every shard also has a full core centred on an assembly (no symmetry lines: every factor is 1)
            cutkind = "cartesian-quarter-through-centre" if sym.startswith("quarter") else "full"
            rings = rng.randint(2, 4) if cutkind != "full" else rng.randint(2, 3)  # a full map has (2 rings - 1)^2 cells
            cspec = cart_core_spec(rng, rings, sym, ndesigns=rng.randint(1, 3), nblocks=rng.randint(2, 3))
            if cutkind == "full":
                # keep the extent odd x odd whatever the holes: the ends of row 0 and column 0 are always filled
                cc_ = cspec["grids"]["core"]["contents"]
                for c0 in [(rings - 1, 0), (1 - rings, 0), (0, rings - 1), (0, 1 - rings)]:
                    cc_.setdefault(c0, sorted(set(cc_.values()))[0])
            area = cspec["pitch"] ** 2
        else:
            sym = rng.choice(["third periodic", "third periodic", "full"])
            rings = rng.randint(2, 4)
            if i == 0:
                # every shard has at least one third core with symmetry-cut blocks at the centre and on the edges
                # (floors edit.block-symmetry-factor-3 and edit.block-symmetry-factor-2)
                sym = "third periodic"
                rings = max(rings, 3)
            cutkind = "hex-third-periodic" if sym.startswith("third") else "full"
            cspec = gen.core_spec(rng, rings=rings, symmetry=sym, ndesigns=rng.randint(1, 3), nblocks=rng.randint(2, 3))
            area = hexarea(cspec["pitch"])
        third = cutkind == "hex-third-periodic"
        contents = cspec["grids"]["core"]["contents"]
        edges = third and rings >= 3 and (i == 0 or rng.random() < .6)
        if edges:
            # the generator leaves random holes: make sure the cells of the 0-degree line (whose images the changer adds) are filled
            for c0 in [c_ for c_ in gen.hex_cells(rings) if on_zero_line(*c_)]:
                if c0 not in contents and (c0 == (2, -1) or rng.random() < .5):
                    contents[c0] = rng.choice(sorted(set(contents.values())))
        e_add = rng.randint(1, 3) if edges else -1
        e_rem = (spec["edits"] - 1 if i == 0 else rng.randint(e_add + 3, spec["edits"] + 3)) if edges else -1
        w = {"geom": "cartesian" if cart else "hex", "symmetry": sym, "map": {"%d,%d" % k: v for k, v in contents.items()}, "case": i, "pitch": cspec["pitch"]}
        try:
            r, cs, bp, text = gen.build_reactor(cspec)
        except Exception as e:
            rec.crash("build-reactor", e, w)
            continue
        core = r.core
        heights = list(next(iter(cspec["assemblies"].values()))["height"])  # all designs share the axial mesh
        cells = set(contents)
        amap = register_core(rec, core, cells, cutkind, w)
        facs = sorted({f for _a, f in amap.values()})
        rec.add("symmetry_factors_expected:%s" % tag + ",".join(str(f) for f in facs))
        if cart and cutkind == "full":
            # triage of one precise mechanism: a FULL cartesian map with an odd x odd extent is flagged "through center" by the grid
            # blueprint, and CartesianBlock.getSymmetryFactor then cuts row 0 / column 0 / the centre as if it were a quarter core.
            # Every volume and mass of such a core is off, so it is reported once under its own key and not judged further.
            rec.hit("symmetry-factor.cartesian-full-core")
            wrong = [[list(cell), b.getSymmetryFactor()] for cell, (a, _f) in sorted(amap.items()) for b in list(a)[:1] if b.getSymmetryFactor() != 1.0]
            if wrong:
                rec.violation("symmetry-factor/cartesian-full-core-cut-through-centre", "blocks of a full cartesian core (no symmetry lines) report symmetry factors %r; "
                              "core volume %r, cell area x height x number of cells = %r" % (wrong[:5], core.getVolume(), area * sum(heights) * len(amap)), dict(w, cut=wrong[:9]))
                rec.skip("full cartesian core whose blocks report the symmetry factors of a quarter core: accounting not judged further")
                continue
        check_core_geometry(rec, core, amap, area, heights, w, tag)
        check_ledger(rec, core, "core", w, rng=rng)
        hist = []
        changer = None
        for e in range(spec["edits"]):
            if e == e_add or e == e_rem:
                from armi.reactor.converters.geometryConverters import EdgeAssemblyChanger
                from vlib.env import quiet

                try:
                    with quiet():
                        if e == e_add:
                            changer = EdgeAssemblyChanger()
                            changer.addEdgeAssemblies(core)
                            cells |= {rot120(*c_) for c_ in cells if on_zero_line(*c_)}
                            hist.append("addEdgeAssemblies")
                        else:
                            changer.removeEdgeAssemblies(core)
                            cells = {c_ for c_ in cells if not on_zero_line(*rot240(*c_))}
                            hist.append("removeEdgeAssemblies")
                except Exception as ex:
                    rec.crash("edge-assemblies/%s" % ("add" if e == e_add else "remove"), ex, dict(w, history=hist))
                    break
                rec.hit("edge-assemblies.changed")
                amap = register_core(rec, core, cells, cutkind, dict(w, history=hist))
                facs = sorted({f for _a, f in amap.values()})
                rec.add("symmetry_factors_expected:" + ",".join(str(f) for f in facs))
                check_core_geometry(rec, core, amap, area, heights, dict(w, history=hist), tag)
                check_ledger(rec, core, "core", dict(w, history=hist), rng=rng)
            r_ = rng.random()
            if r_ < .4:
                a = rng.choice(list(core))
                op = "a:" + do_edit(rec, rng, a, "assembly", dict(w, history=hist))
            elif r_ < .6:
                a = rng.choice(list(core))
                op = "b:" + do_edit(rec, rng, rng.choice(list(a)), "block", dict(w, history=hist))
            else:
                op = "core:" + do_edit(rec, rng, core, "core", dict(w, history=hist))
            hist.append(op)
            check_ledger(rec, core, "core", dict(w, history=hist), rng=rng)
            # blocks cut by symmetry lines (hex third core: factor 3 at the centre, 2 for both members of an edge pair; cartesian
            # quarter core: 4 at the centre, 2 along row 0 and column 0): edit them and one of their components directly every
            # step, then run the ledger on component, block and assembly
            cut = [amap[(0, 0)]] if (0, 0) in amap else []
            pairs = sorted(c_ for c_, (_a, f_) in amap.items() if f_ == 2.0)
            if pairs:
                cut.append(amap[rng.choice(pairs)])
            for ca, fac in cut:
                if not len(ca):
                    continue
                which = "centre" if ca is amap[(0, 0)][0] else "edge"
                cb = rng.choice(list(ca))
                cc = rng.choice(list(cb))
                rec.hit("edit.%sblock-symmetry-factor-%g" % (tag, fac))
                hist.append("%s-b(sym %g):" % (which, fac) + do_edit(rec, rng, cb, "block", dict(w, history=hist, symmetryFactor=fac)))
                hist.append("%s-c:" % which + do_edit(rec, rng, cc, "component", dict(w, history=hist, symmetryFactor=fac, component=cc.name)))
                rec.hit("ledger.component-in-%sblock-of-factor-%g" % (tag, fac))
                check_ledger(rec, cc, "component", dict(w, history=hist, which=which, symmetryFactor=fac, component=cc.name), rng=rng)
                check_ledger(rec, ca, "assembly", dict(w, history=hist, which=which), rng=rng)
                check_ledger(rec, cb, "block", dict(w, history=hist, which=which), rng=rng)
            check_core_geometry(rec, core, amap, area, heights, dict(w, history=hist), tag)
            rec.case(["core", sym, op, facs], sample=dict(w, history=hist) if i == 0 and e == 2 else None)


def do_dtools(spec, rec, rng):
    from armi.nucDirectory import nuclideBases as nb
    from armi.utils import densityTools as dt

    names = [n.name for n in nb.instances if isinstance(n, nb.NuclideBase) and n.abundance > 0][:250]
    K = const()
    for i in range(spec["n"]):
        sel = rng.sample(names, rng.randint(1, 8))
        fr = [rng.random() + 1e-3 for _ in sel]
        s = sum(fr)
        mf = {n: f / s for n, f in zip(sel, fr)}
        rho = 10 ** rng.uniform(-3, 1.3)
        w = {"rho": rho, "massFracs": mf}
        rec.hit("densityTools")
        try:
            nd = dt.getNDensFromMasses(rho, dict(mf))
            for n in sel:  # reference: N = rho * mf * K / A
                if not rc(nd[n], rho * mf[n] * K / aw(n), TOLERANCES["inverse_rel"]):
                    rec.violation("densityTools/getNDensFromMasses", "N(%s)=%r expected %r" % (n, nd[n], rho * mf[n] * K / aw(n)), w)
                    break
            back = dt.getMassFractions(dict(nd))
            if any(not rc(back[n], mf[n], TOLERANCES["inverse_rel"], 1e-16) for n in sel) or abs(sum(back.values()) - 1) > 1e-12:
                rec.violation("densityTools/massfraction-roundtrip", "getMassFractions(getNDensFromMasses(rho,mf)) != mf", w)
            if not rc(dt.calculateMassDensity(dict(nd)), rho, TOLERANCES["inverse_rel"]):
                rec.violation("densityTools/calculateMassDensity", "mass density %r expected %r" % (dt.calculateMassDensity(dict(nd)), rho), w)
            n0 = sel[0]
            vol, mass = 10 ** rng.uniform(-2, 4), 10 ** rng.uniform(-3, 5)
            N = dt.calculateNumberDensity(n0, mass, vol)
            if not rc(dt.getMassInGrams(n0, vol, N), mass, TOLERANCES["inverse_rel"]) or not rc(N, mass / vol * K / aw(n0), TOLERANCES["inverse_rel"]):
                rec.violation("densityTools/number-density-mass-roundtrip", "getMassInGrams(calculateNumberDensity(m)) = %r, m=%r" % (dt.getMassInGrams(n0, vol, N), mass), w)
        except Exception as e:
            rec.crash("densityTools", e, w)
        rec.case(["dtools", sorted(sel), round(math.log10(rho), 2)], sample=w if i < 1 else None)
