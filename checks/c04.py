"""C04 - a reactor saved to the database loads back observationally equal.

Oracle: vlib.obs.obs() - a depth-first observation of the model through public queries (class, name, serial number,
child order, grid constructor arguments, locator kind and indices/coordinates, material, temperatures, dimensions with
link targets, number densities, volume, mass, every persistent assigned parameter).  Laws:
   obs(r) == obs(load(write(r)));  obs(load#1) == obs(load#2);  obs(load(write(load(write(r))))) == obs(load(write(r))).
Workload: reactors from generated blueprints (hex third/full) and repo inputs (smallest, full test reactor, Cartesian,
c5g7 pin lattices, a theta-RZ core made by HexToRZConverter), each taken through a random state history before the write.
Also: what "persistent" means is pinned here (PINNED_PERSISTENT), not taken from the definitions of the tree under test; known
differences are filed under their known key only when the case really is the one the finding describes (classification
from the ORIGINAL model, see Ctx); every loaded reactor is checked for parent links and core lookup tables.
"""
import copy
import os
import random

PROP = "C04"
LEVEL = "exploration"
RULE = (
    "reactor x state history: generated hex cores (third periodic / full; 2-4 rings; pin blocks with auto pin grids) and repo inputs; history of "
    "8-25 steps from {assign random persistent parameters of every class (scalar/str/bool/array/list kinds, on all or on a subset of objects), "
    "composition edits, temperature changes, block/assembly rotation, assembly swaps, discharge to the spent fuel pool, free-coordinate and "
    "multi-index pin locators}. A case = one (reactor, history) pair written and loaded; distinct by (reactor kind, history op multiset); every "
    "case is non-trivial (>= 1 state change before the write). Every history also assigns one no-default result parameter on ALL objects of a "
    "class (a fully assigned column must be written). Shard thrz: full test reactor reduced to 2-3 rings and converted by HexToRZConverter "
    "(one theta bin - the converter refuses to split the centre ring -, random axial mesh, source expanded to full core or not), core finalised with Core.processLoading and the reactor named after the case title as reactors.factory "
    "does (the loader takes the name from the settings). Parameter values compare by value and shape; the dtype KIND of an array (an int "
    "array coming back as float) is not judged here - C05 judges kinds. Persistence of a definition is judged against a pinned list of names."
)
TOLERANCES = {"recomputed_rel": 1e-9}
FLOORS = {"quick": {"law.resave-in-a-fresh-process": 2, "workload.blueprints-state-assembly-parameters": 5, "op.assembly-state-after-blueprint-value": 10, "law.second-write-to-a-written-node": 2, "law.roundtrip-labelled-state-point": 4, "law.roundtrip-labelled-state-point/layout-differs-from-plain-node": 3, "law.roundtrip": 12, "law.load-twice": 12, "law.idempotent": 6, "law.roundtrip-later-node": 8, "nodes.compared": 3000,
                    "law.roundtrip/thrz": 1, "history.third-core-with-edge-assemblies": 1, "loaded-tree.parent-links": 10000, "loaded-tree.core-lookups": 1500,
                    "persistence.definitions-pinned": 3000, "workload.nodefault-column-fully-assigned": 12,
                    "classify.recomputed-judged-against-original": 2500},
          "thorough": {"law.resave-in-a-fresh-process": 8, "workload.blueprints-state-assembly-parameters": 40, "op.assembly-state-after-blueprint-value": 80, "law.second-write-to-a-written-node": 40, "law.roundtrip-labelled-state-point": 60, "law.roundtrip-labelled-state-point/layout-differs-from-plain-node": 40, "law.roundtrip": 150, "law.load-twice": 150, "law.idempotent": 60, "law.roundtrip-later-node": 80, "nodes.compared": 60000,
                       "law.roundtrip/thrz": 4, "history.third-core-with-edge-assemblies": 8, "loaded-tree.parent-links": 100000, "loaded-tree.core-lookups": 15000,
                       "persistence.definitions-pinned": 5000, "workload.nodefault-column-fully-assigned": 150,
                       "classify.recomputed-judged-against-original": 25000}}
TIMEOUT = {"quick": 900, "thorough": 7200}


def plan(tier, seed):
    q = tier == "quick"
    out = [{"name": "gen%d" % i, "kind": "generated", "n": 3 if q else 25} for i in range(8)]
    out.append({"name": "smallest", "kind": "repo", "input": "smallestTestReactor/armiRunSmallest.yaml", "n": 3 if q else 20})
    out.append({"name": "cartesian", "kind": "repo", "input": "refTestCartesian.yaml", "n": 1 if q else 6, "settings": True})
    out.append({"name": "c5g7", "kind": "repo", "input": "c5g7/c5g7-settings.yaml", "n": 1 if q else 4})
    if not q:
        out += [{"name": "full%d" % i, "kind": "repo", "input": "armiRun.yaml", "n": 3} for i in range(3)]
    else:
        out.append({"name": "full0", "kind": "repo", "input": "armiRun.yaml", "n": 1})
    out += [{"name": "thrz%d" % i, "kind": "thrz", "n": 2 if q else 3} for i in range(1 if q else 3)]
    return out


def run_shard(spec, rec):
    from vlib import gen

    check_pinned_definitions(rec, {"shard": spec["name"]})
    for i in range(spec["n"]):
        rng = random.Random("%s:%d" % (spec["rng"], i))
        w = {"shard": spec["name"], "case": i, "rng": "%s:%d" % (spec["rng"], i)}
        try:
            if spec["kind"] == "thrz":
                r, cs, bp, desc = build_thrz(rng)
                w["reactor"] = desc
                kind = "thrz"
            elif spec["kind"] == "generated":
                sym = rng.choice(["third periodic", "third periodic", "full"])
                cspec = gen.core_spec(rng, rings=rng.randint(2, 4), symmetry=sym, ndesigns=rng.randint(1, 3), nblocks=rng.randint(1, 4))
                if rng.random() < .6:
                    # the blueprints state the optional assembly attributes (nozzle, control-rod elevations); the model moves on from them
                    for a_ in cspec["assemblies"].values():
                        a_["nozzleType"] = rng.choice(["Inner", "Outer", "Default"])
                        a_["crInsertedElevation"], a_["crWithdrawnElevation"] = 0.0, 25.0
                        a_["crCurrentElevation"] = rng.choice([0.0, 10.0, 25.0])
                    rec.hit("workload.blueprints-state-assembly-parameters")
                r, cs, bp, text = gen.build_reactor(cspec, {"trackAssems": True} if rng.random() < .6 else None)
                w["reactor"] = {"symmetry": sym, "assemblies": len(r.core)}
                kind = "generated-" + sym.split()[0]
            else:
                r, cs, bp = load_repo(spec["input"])
                w["reactor"] = spec["input"]
                kind = spec["name"].rstrip("0123456789")
        except Exception as e:
            rec.crash("build/" + spec["kind"], e, w)
            continue
        try:
            hist = history(rec, rng, r, w)
        except Exception as e:
            rec.crash("history(harness?)", e, w)
            continue
        w["history"] = hist
        roundtrip(rec, rng, r, cs, bp, w, kind)
        rec.case([kind, sorted(set(h.split(":")[0] for h in hist)), len(hist)], sample=w if i == 0 else None)


def fresh_process_resave(rec, db, inp, cyc, node, w):
    import json
    import subprocess
    import sys

    db.h5db.flush()
    root = os.path.dirname(os.path.dirname(os.path.abspath(__file__)))
    try:
        p = subprocess.run([sys.executable, "-m", "checks.c04", "--fresh-resave", db._fullPath, inp, str(cyc), str(node)], cwd=root,
                           stdout=subprocess.PIPE, stderr=subprocess.PIPE, timeout=600)
    except subprocess.TimeoutExpired:
        rec.skip("fresh-process re-save: child timed out")
        return
    line = [ln for ln in p.stdout.decode("utf8", "replace").splitlines() if ln.startswith("C04-FRESH ")]
    if p.returncode != 0 or not line:
        rec.violation("crash/fresh-process-resave", "a fresh process could not load, re-save and load again (exit %s): %s" % (p.returncode, p.stderr.decode("utf8", "replace")[-300:]), w)
        return
    out = json.loads(line[-1][len("C04-FRESH "):])
    rec.hit("law.resave-in-a-fresh-process")
    rec.hit("nodes.compared-in-a-fresh-process", out["nodes"])
    for k, m in out["diffs"][:5]:
        rec.violation("resave-in-a-fresh-process/" + k, "loaded in a fresh process, saved under the next node and loaded again: " + m, dict(w, which="fresh process"))


def _fresh_resave_main(argv):
    """Child process: load <db> at (cycle, node) with the input's settings and blueprints, save the loaded reactor under node+7 in a new
    file, load that, and print the observational differences between the two loaded reactors."""
    import json
    import sys

    path, inp, cyc, node = argv[0], argv[1], int(argv[2]), int(argv[3])
    from vlib import env

    env.setup(True)
    from armi import settings
    from armi.bookkeeping.db.database import Database
    from armi.reactor import blueprints
    from armi.tests import TEST_ROOT
    from vlib import obs
    from vlib.env import quiet

    cs = settings.Settings(fName=os.path.join(TEST_ROOT, inp))
    with quiet():
        bp = blueprints.loadFromCs(cs)
        src = Database(path, "r")
        src.open()
        r1 = src.load(cyc, node, cs=cs, bp=bp)
        src.close()
        o1 = obs.obs(r1)
        r1.p.timeNode = node + 7
        out = Database("resaved.h5", "w")
        out.open()
        out.writeToDB(r1)
        r2 = out.load(cyc, node + 7, cs=cs, bp=bp)
        out.close()
        o2 = obs.obs(r2)
    d = [(k, m) for k, m in obs.diff(o1, o2, limit=40) if "timeNode" not in k and "timeNode" not in m[:60]]
    sys.stdout.write("C04-FRESH " + json.dumps({"nodes": len(o1), "diffs": d[:10]}) + "\n")
    sys.stdout.flush()
    env._cleanup()
    os._exit(0)


def load_repo(inp):
    import io

    from armi import settings
    from armi.reactor import blueprints, reactors
    from armi.tests import TEST_ROOT
    from vlib.env import quiet

    fname = os.path.join(TEST_ROOT, inp)
    cs = settings.Settings(fName=fname)
    with quiet():
        bp = blueprints.loadFromCs(cs)
        r = reactors.factory(cs, bp)
    return r, cs, bp


def build_thrz(rng):
    """A theta-RZ reactor the way armi makes one: the full test reactor cut down to a few rings, homogenised by HexToRZConverter."""
    import math

    from armi.reactor.converters import geometryConverters
    from armi.testing import loadTestReactor, reduceTestReactorRings
    from armi.tests import TEST_ROOT
    from vlib.env import quiet

    rings = rng.choice([2, 2, 3])
    zs = sorted(set([round(rng.uniform(20, 170), 1) for _ in range(rng.randint(2, 6))] + [175.0]))
    expand = rng.random() < .5
    with quiet():
        o, r = loadTestReactor(TEST_ROOT)
        reduceTestReactorRings(r, o.cs, rings)
        cs = o.cs
        conv = geometryConverters.HexToRZConverter(
            cs, {"radialConversionType": "Ring Compositions", "axialConversionType": "Axial Coordinates", "uniformThetaMesh": True,
                 "thetaBins": 1, "axialMesh": zs, "thetaMesh": [2 * math.pi]}, expandReactor=expand)
        conv.convert(r)
        rz = conv.convReactor
        # bring the converted core to the state reactors.factory leaves a core in (mirrors of the case settings such as beta, block
        # mass parameters), and name the reactor after the case: Database.load takes the name from the settings it is given
        rz.core.processLoading(cs)
    rz.name = "R-" + cs.caseTitle
    assert type(rz.core.spatialGrid).__name__ == "ThetaRZGrid", type(rz.core.spatialGrid)
    return rz, cs, r.blueprints, {"thrz": True, "rings": rings, "axialMesh": zs, "expandReactor": expand, "assemblies": len(rz.core)}


# ----------------------------------------------------------------------------- what "persistent" means (pinned, B2)
# Names of the parameter definitions with saveToDB=True per parameter-collection class, taken once from the tree this check was written
# against (stock App).  obs.params_obs() observes "every persistent parameter" by asking the definitions of the tree under test, so a
# definition that silently stops being saved would vanish from both sides of every comparison; this list is the independent statement
# of what has to be saved.  "+Component" = the names of "Component" plus the ones listed.
PINNED_PERSISTENT = {
    "ArmiObject": (
        "flags serialNum "
    ),
    "Assembly": (
        "THcoolantInletT THcoolantOutletT THdeltaPNoGrav THdeltaPPump THdeltaPTotal THlocalDTout THlocalDToutFuel THmassFlowRate "
        "THorificeZone arealPd assemNum buLimit chargeBu chargeCycle chargeFis chargeTime crCriticalFraction crCurrentElevation "
        "crInsertedElevation crRodLength crWithdrawnElevation daysSinceLastMove detailedNDens dischargeTime flags hotChannelFactors kInf "
        "maxDpaPeak maxPercentBu multiplicity notes nozzleType numMoves orientation powerDecay serialNum timeToLimit type "
    ),
    "Block": (
        "TH0SigmaCladIDT TH0SigmaCladODT TH2SigmaCladIDT TH2SigmaCladODT TH3SigmaCladIDT TH3SigmaCladODT THTfuelCL THTfuelOD "
        "THaverageCladIDT THaverageCladODT THaverageCladTemp THaverageDuctTemp THaverageGapTemp THcoolantAverageT THcoolantInletT "
        "THcoolantOutletT THcoolantStaticT THcornTemp THdeltaPTotal THdilationPressure THedgeTemp THhotChannel THhotChannelCladIDT "
        "THhotChannelCladODT THhotChannelFuelCenterlineT THhotChannelFuelODT THhotChannelHeatTransferCoeff THhotChannelOutletT THlocalDTout "
        "THlocalDToutFuel THmassFlowRate THorificeZone adjMgFlux arealPd assemNum avgFuelTemp axExtenNodeHeight axMesh "
        "axialExpTargetComponent axialGrowthPct axialPowerProfile axialPowerProfileGamma axialPowerProfileNeutron betad blockBeta blockF "
        "bondRemoved breedRatio buLimit buRate buRatePeak burnupMWdPerKg capturePowerFrac chi chid cladACCI cladWastage convRatio "
        "cornerFastFlux crWastage cyclicNErr detailedDpa detailedDpaPeak detailedDpaPeakRate detailedDpaRate detailedDpaThisCycle "
        "displacementX displacementY dpaPeakFromFluence enrichmentBOL envGroup envGroupNum eqCascade eqRegion fastFluence fastFluencePeak "
        "fastFlux fastFluxFr fertileBonus fisDens fisDensHom fissileAfter fissileBefore fissileDestroyed fissileFraction flags fluence flux "
        "fluxAdj fluxAdjPeak fluxGamma fluxPeak fpAveFuelTemp fpPeakFuelTemp fuelCladLocked gammaSrc gasPorosity gasReleaseFraction height "
        "heightBOL heliumInB4C id initialB10ComponentVol intrinsicSource intrinsicSourceDecayed kInf kgFis kgHM linPow linPowByPin "
        "linPowByPinGamma linPowByPinNeutron liquidPorosity massHmBOL mchan medAbsE medFisE medFlxE mgFlux mgFluxGamma mgGammaSrc "
        "mgNeutronVelocity molesHmBOL molesHmNow mreg nPins newDPA newDPAPeak orientation pdens pdensDecay pdensGamma pdensGenerated "
        "pdensNeutron percentBu percentBuMax percentBuMaxPinLocation percentBuPeak pinMgFluxes pointsCornerDpa pointsCornerDpaRate "
        "pointsCornerFastFluxFr pointsEdgeDpa pointsEdgeDpaRate pointsEdgeFastFluxFr power powerGamma powerGenerated powerNeutron powerRx "
        "powerShapeDelta ppdens ppdensGamma puFrac rateAbs rateBalance rateCap rateExtSrc rateFis rateFisAbs rateFisSrc rateLeak "
        "rateParasAbs rateProdFis rateProdN2n rateProdNet rateScatIn rateScatOut reactionRates residence rxCladDensityCoeffPerMass "
        "rxCladDensityCoeffPerTemp rxCladDopplerCoeffPerTemp rxCladDopplerConstant rxCladTemperatureCoeffPerMass "
        "rxCladTemperatureCoeffPerTemp rxCoolantDensityCoeffPerMass rxCoolantDensityCoeffPerTemp rxCoolantTemperatureCoeffPerMass "
        "rxCoolantTemperatureCoeffPerTemp rxFuelDensityCoeffPerMass rxFuelDensityCoeffPerTemp rxFuelDopplerCoeffPerTemp "
        "rxFuelDopplerConstant rxFuelTemperatureCoeffPerMass rxFuelTemperatureCoeffPerTemp rxFuelVoidedDopplerCoeffPerTemp "
        "rxFuelVoidedDopplerConstant rxFuelVoidedTemperatureCoeffPerMass rxFuelVoidedTemperatureCoeffPerTemp rxStructureDensityCoeffPerMass "
        "rxStructureDensityCoeffPerTemp rxStructureDopplerCoeffPerTemp rxStructureDopplerConstant rxStructureTemperatureCoeffPerMass "
        "rxStructureTemperatureCoeffPerTemp serialNum smearDensity timeToLimit topIndex totalCladStrain type xsType xsTypeNum z zbottom "
        "ztop "
    ),
    "Circle": (
        "+Component id od op "
    ),
    "Component": (
        "area buRate burnupMWdPerKg customIsotopicsName detailedNDens flags massHmBOL mergeWith modArea molesHmBOL mult numberDensities "
        "percentBu pinNDens pinNum pinPercentBu puFrac serialNum temperatureInC theoreticalDensityFrac type volume zrFrac "
    ),
    "Core": (
        "ConvRatioCore THmaxDeltaPPump THmaxDilationPressure THoutletTempIdeal absPerFisCore adjWeightedFisSrc axialExpansionPercent "
        "axialMesh beta betaComponents betaDecayConstants boecKeff breedingRatio coupledIteration crMostValuablePrimaryRodLocation "
        "crMostValuableSecondaryRodLocation crTransientOverpowerWorth crWorthRequiredPrimary crWorthRequiredSecondary critSearchSlope "
        "cyclics detailedNucKeys doublingTime dpaFullWidthHalfMax eigenvalues elevationOfACLP3Cycles elevationOfACLP7Cycles fastFluxFrAvg "
        "fisFrac fisRateCore fissileMass flags heavyMetalMass jumpRing kInf keff keffUnc lastKeff leakageFracAxial leakageFracPlanar "
        "leakageFracTotal loadPadDpaAvg loadPadDpaPeak maxAssemNum maxBuF maxBuI maxCyclicNErr maxDPA maxDetailedDpaThisCycle maxFlux "
        "maxGridDpa maxPD maxProcessMemoryInMB maxcladFCCI maxdetailedDpaPeak maxpdens maxpercentBu medAbsCore medFluxCore medSrcCore "
        "minProcessMemoryInMB minutesSinceStart numMoves orientation peakGridDpaAt60Years peakKeff pkFlux power powerDecay powerDensity "
        "promptNeutronGenerationTime promptNeutronLifetime refKeff referenceBlockAxialMesh rxAclpRadialExpansionCoeffPerTemp "
        "rxCladDensityCoeffPerTemp rxCladDopplerCoeffPerTemp rxCladDopplerConstant rxCladTemperatureCoeffPerTemp "
        "rxControlRodDrivelineExpansionCoeffPerTemp rxCoolantDensityCoeffPerTemp rxCoolantTemperatureCoeffPerTemp "
        "rxCoreWideCoolantVoidWorth rxFuelAxialExpansionCoeffPerPercent rxFuelAxialExpansionCoeffPerTemp rxFuelDensityCoeffPerTemp "
        "rxFuelDopplerCoeffPerTemp rxFuelDopplerConstant rxFuelTemperatureCoeffPerTemp rxFuelVoidedDopplerCoeffPerTemp "
        "rxFuelVoidedDopplerConstant rxFuelVoidedTemperatureCoeffPerTemp rxGridPlateRadialExpansionCoeffPerTemp "
        "rxSpatiallyDependentCoolantVoidWorth rxStructureDensityCoeffPerTemp rxStructureDopplerCoeffPerTemp rxStructureDopplerConstant "
        "rxStructureTemperatureCoeffPerTemp rxSwing serialNum totalIntrinsicSource totalIntrinsicSourceDecayed "
    ),
    "Cube": (
        "+Component heightInner heightOuter lengthInner lengthOuter widthInner widthOuter "
    ),
    "Helix": (
        "+Component axialPitch helixDiameter id od op "
    ),
    "HexHoledCircle": (
        "+Component holeOP id od op "
    ),
    "Hexagon": (
        "+Component ip op "
    ),
    "HoledHexagon": (
        "+Component holeOD ip nHoles op "
    ),
    "HoledRectangle": (
        "+Component holeOD lengthInner lengthOuter widthInner widthOuter "
    ),
    "HoledSquare": (
        "+Component holeOD lengthInner lengthOuter widthInner widthOuter "
    ),
    "RadialSegment": (
        "+Component azimuthal_differential height inner_axial inner_radius inner_theta outer_axial outer_radius outer_theta "
        "radius_differential "
    ),
    "Reactor": (
        "availabilityFactor capacityFactor cycle cycleLength eFeedMT eFissile eSWU flags lcoe maxAssemNum serialNum stepLength time "
        "timeNode "
    ),
    "Rectangle": (
        "+Component lengthInner lengthOuter widthInner widthOuter "
    ),
    "Sphere": (
        "+Component id od op "
    ),
    "Triangle": (
        "+Component base height "
    ),
    "UnshapedComponent": (
        "+Component op userDefinedVolume "
    ),
}


def check_pinned_definitions(rec, w):
    from armi.reactor import assemblies, blocks, components, composites, reactors  # noqa: F401 (make the subclasses exist)

    def subs(c):
        for s in c.__subclasses__():
            yield s
            yield from subs(s)

    colls = {}
    for cls in subs(composites.ArmiObject):
        pc = getattr(cls, "paramCollectionType", None)
        if pc is not None and pc.__name__.endswith("ParameterCollection"):
            colls.setdefault(pc.__name__[:-len("ParameterCollection")], pc)
    removed = []
    for cname, text in sorted(PINNED_PERSISTENT.items()):
        names = text.split()
        if names and names[0] == "+Component":
            names = PINNED_PERSISTENT["Component"].split() + names[1:]
        pc = colls.get(cname)
        if pc is None:
            removed.append(cname + ".*")
            continue
        defs = {pd.name: pd for pd in pc.pDefs}
        for n in names:
            pd = defs.get(n)
            if pd is None:
                removed.append("%s.%s" % (cname, n))  # a definition that no longer exists has nothing to round-trip: noted, not judged
                continue
            rec.hit("persistence.definitions-pinned")
            if not pd.saveToDB:
                rec.violation("persistence/definition-no-longer-saved/%s.%s" % (cname, n),
                              "parameter %s of %s objects was persistent (saveToDB=True) and is now defined with saveToDB=False: an assigned value "
                              "is silently lost by every database write" % (n, cname), dict(w, parameter=n, collection=pc.__name__))
    if removed:
        rec.note("persistence.pinned-definitions-not-defined-any-more", removed[:50])


# ----------------------------------------------------------------------------- state histories
def classes_of(r):
    groups = {}
    for o in [r] + r.getChildren(deep=True):
        groups.setdefault(type(o), []).append(o)
    return groups


def value_like(rng, pd, cur, n):
    """A list of n values of the kind this parameter already holds / its default suggests; None if the kind is unknown."""
    import numpy as np

    sample = cur if cur is not None else pd.default
    from armi.reactor import parameters

    if sample is parameters.NoDefault:
        sample = 0.0
    if isinstance(sample, bool):
        return [rng.random() < .5 for _ in range(n)]
    if isinstance(sample, (int, np.integer)):
        return [rng.randint(-5, 1000) for _ in range(n)]
    if isinstance(sample, (float, np.floating)):
        return [rng.choice([rng.uniform(-10, 10), rng.uniform(0, 1e6), 0.0, 1e-30]) for _ in range(n)]
    if isinstance(sample, str):
        return [rng.choice(["A", "xy", "fuel block", "", "Zr-10"]) for _ in range(n)]  # non-ASCII text is refused at write time (judged in C05)
    if isinstance(sample, np.ndarray) or isinstance(sample, list):
        ln = len(sample) if len(sample) else rng.randint(1, 4)
        same = rng.random() < .7
        twod = isinstance(sample, np.ndarray) and rng.random() < .35  # e.g. pin x group tables; often handed over as views / Fortran order
        vals = []
        for _ in range(n):
            m = ln if same else rng.randint(1, 4)
            if twod:
                g = rng.randint(2, 4)
                a = np.array([[rng.uniform(0, 100) for _ in range(g)] for _ in range(max(m, 2))])
                how = rng.randrange(4)
                a = [a, np.asfortranarray(a), np.ascontiguousarray(a.T).T, np.repeat(a, 2, axis=1)[:, ::2]][how]
                vals.append(a)
                continue
            v = [rng.uniform(0, 100) for _ in range(m)]
            vals.append(np.array(v) if isinstance(sample, np.ndarray) else v)
        return vals
    return None


SKIP_PARAMS = {"serialNum", "flags", "type", "numberDensities", "mult", "volume", "modArea", "height", "ztop", "zbottom", "z", "axMesh", "assemNum",
               "cycle", "timeNode", "orientation", "pinLocation", "topIndex", "percentBuByPin", "nPins", "xsType", "envGroup", "envGroupNum", "xsTypeNum",
               "area", "mergeWith", "customIsotopicsName", "temperatureInC", "axialExpTargetComponent", "maxAssemNum", "symmetry", "geomType",
               # mirrors of the case settings / blueprints, which the property holds fixed ("loaded with the same settings and blueprints"):
               # Core.processLoading and Database._assignBlueprintsParams re-apply them on load by design
               # (the assembly parameters a blueprint may state - nozzleType, control-rod elevations, hotChannelFactors - are *state* once the
               # model runs, a rod moves: the written value is what a load returns, and they are judged like any other parameter)
               "jumpRing", "beta", "betaComponents", "betaDecayConstants", "pressureLossCoeffs"}


def history(rec, rng, r, w):
    import math

    from armi.reactor import grids, parameters
    from armi.reactor.components import Component
    from armi.reactor.flags import Flags

    hist = []
    core = r.core
    # a third core carrying its edge assemblies on both symmetry lines (what EdgeAssemblyChanger.addEdgeAssemblies leaves behind) is a
    # state users write to the database too: the half assemblies and their volume-integrated parameters must come back as written
    try:
        sym = str(core.symmetry)
        if type(core.spatialGrid).__name__ == "HexGrid" and "third" in sym and (rng.random() < .5 or w.get("case") == 0):
            from armi.reactor.converters.geometryConverters import EdgeAssemblyChanger
            from vlib.env import quiet as _quiet

            n0 = len(core)
            with _quiet():
                EdgeAssemblyChanger().addEdgeAssemblies(core)
            if len(core) > n0:
                hist.append("add-edge-assemblies(+%d)" % (len(core) - n0))
                rec.hit("history.third-core-with-edge-assemblies")
    except Exception as e:
        rec.crash("history-op/add-edge-assemblies", e, dict(w, history=hist))
    groups = classes_of(r)
    nsteps = rng.randint(8, 25)
    for _ in range(nsteps):
        op = rng.choice(["param", "param", "param", "param-subset", "ndens", "temperature", "rotate-block", "swap", "discharge", "free-coordinate", "core-param", "table-param", "assembly-state"])
        try:
            if op == "assembly-state":
                # a control rod is moved, a nozzle exchanged: parameters a blueprint may have given a first value
                a_ = rng.choice(list(r.core))
                a_.p.crCurrentElevation = rng.uniform(0.0, 25.0)
                if rng.random() < .5:
                    a_.p.nozzleType = rng.choice(["Inner", "Outer", "Plenum-%d" % rng.randint(0, 9)])
                rec.hit("op.assembly-state-after-blueprint-value" if a_.p.crInsertedElevation is not None else "op.assembly-state")
                hist.append("assembly-state")
            elif op == "table-param":
                # physics results stored per block as tables (pin x group fluxes, group vectors): per-block shapes differ, some blocks
                # have none, and the arrays arrive as views / Fortran-ordered data of whatever produced them
                import numpy as np

                name = rng.choice(["pinMgFluxes", "pinMgFluxes", "mgFlux", "linPowByPin", "mgFluxGamma"])
                blks = [b for b in r.core.getBlocks() if name in b.p]
                if not blks:
                    continue
                ng = rng.randint(2, 5)
                for b in blks:
                    if rng.random() < .25:
                        continue
                    if name == "pinMgFluxes":
                        a = np.array([[rng.uniform(0, 1e3) for _ in range(ng)] for _ in range(rng.randint(2, 5))])
                        a = [a, np.asfortranarray(a), np.ascontiguousarray(a.T).T, np.repeat(a, 2, axis=1)[:, ::2]][rng.randrange(4)]
                    else:
                        a = np.array([rng.uniform(0, 1e3) for _ in range(rng.randint(1, 5))])
                        if rng.random() < .5:
                            a = np.repeat(a, 2)[::2]
                    b.p[name] = a
                hist.append("table-param:%s(%d blocks)" % (name, len(blks)))
                continue
            if op in ("param", "param-subset", "core-param"):
                cls = rng.choice([c for c in groups if c.__name__ in (("Core", "Reactor") if op == "core-param" else tuple(k.__name__ for k in groups))])
                objs = groups[cls]
                objs = [o for o in objs if o.parent is not None or type(o).__name__ == "Reactor"]
                if not objs:
                    continue
                defs = [pd for pd in objs[0].p.paramDefs if pd.saveToDB and pd.name not in SKIP_PARAMS and pd.name not in getattr(objs[0], "DIMENSION_NAMES", ())]
                if type(objs[0]).__name__ == "DifferentialRadialSegment":
                    # its outer_radius/outer_axial/outer_theta are DEPENDENT dimensions (not constructor arguments, so not in DIMENSION_NAMES):
                    # every getComponentArea/getComponentVolume call re-derives them from inner + differential (updateDims), so a free value
                    # there is not a state of the model (it survives only as long as the volume cache does)
                    defs = [p_ for p_ in defs if p_.name not in ("outer_radius", "outer_axial", "outer_theta")]
                if not defs:
                    continue
                pd = rng.choice(defs)
                sub = objs if op != "param-subset" else rng.sample(objs, max(1, len(objs) // 2))
                cur = sub[0].p.get(pd.name) if hasattr(sub[0].p, pd.fieldName) else None
                vals = value_like(rng, pd, cur, len(sub))
                if vals is None:
                    continue
                ok = 0
                for o, v in zip(sub, vals):
                    try:
                        o.p[pd.name] = v
                        ok += 1
                    except Exception:
                        break
                if ok:
                    hist.append("%s:%s.%s(%d/%d %s)" % (op, cls.__name__, pd.name, ok, len(objs), type(vals[0]).__name__))
            elif op == "ndens":
                comps = [c for c in r.core.iterComponents() if c.p.numberDensities]
                c = rng.choice(comps)
                nuc = rng.choice(sorted(c.p.numberDensities))
                c.setNumberDensity(nuc, c.getNumberDensity(nuc) * rng.uniform(.2, 3))
                if rng.random() < .3:
                    c.setNumberDensity(rng.choice(["PU239", "XE135", "AM241"]), rng.uniform(1e-8, 1e-3))
                hist.append("ndens")
            elif op == "temperature":
                comps = list(r.core.iterComponents())
                c = rng.choice(comps)
                told = c.temperatureInC
                try:
                    c.setTemperature(rng.uniform(300, 600))
                    c.getDimension(sorted(c.THERMAL_EXPANSION_DIMS)[0]) if c.THERMAL_EXPANSION_DIMS else None
                    for x in c.parent:
                        x.clearCache()  # a cached (now stale) volume of the DerivedShape must not hide a negative left-over area
                    c.parent.clearCache()
                    c.parent.getVolume()
                    if any(x.getVolume() < 0 or x.getArea() < 0 for x in c.parent):
                        # e.g. a duct grown past the fixed outer pitch of the inter-assembly coolant: armi does not refuse it, but a
                        # component of negative area is not a valid model state (and DerivedShape treats it inconsistently)
                        raise ArithmeticError("negative component area")
                    hist.append("temperature")
                except (RuntimeError, ValueError, ArithmeticError):
                    # no expansion law, or the expansion made components overlap (negative derived area): not a valid state
                    c.setTemperature(told)
            elif op == "rotate-block":
                bs = [b for b in r.core.getBlocks() if hasattr(b, "rotate") and type(b).__name__ == "HexBlock"]
                if bs:
                    b = rng.choice(bs)
                    b.rotate(rng.randint(1, 5) * math.pi / 3)
                    hist.append("rotate-block")
            elif op == "swap":
                assems = list(core)
                if len(assems) >= 2:
                    a, b = rng.sample(assems, 2)
                    la, lb = a.spatialLocator, b.spatialLocator
                    a.moveTo(lb)
                    b.moveTo(la)
                    hist.append("swap")
            elif op == "discharge":
                assems = list(core)
                if len(assems) > 2:
                    a = rng.choice(assems[1:])
                    core.removeAssembly(a, discharge=True)
                    hist.append("discharge(trackAssems=%s)" % core._trackAssems)
                    groups = classes_of(r)
            elif op == "free-coordinate":
                bs = [b for b in r.core.getBlocks() if b.spatialGrid is not None]
                if bs:
                    b = rng.choice(bs)
                    cands = [c for c in b if isinstance(c.spatialLocator, grids.CoordinateLocation)]
                    if cands:
                        c = rng.choice(cands)
                        c.spatialLocator = grids.CoordinateLocation(rng.uniform(-2, 2), rng.uniform(-2, 2), 0.0, b.spatialGrid)
                        hist.append("free-coordinate")
        except Exception as e:
            rec.crash("history-op/" + op, e, dict(w, history=hist))
    if not hist:
        r.core.p.power = 1.0
        hist.append("core-param:Core.power")
    # a result parameter WITHOUT default assigned on every object of its class: the column is complete, so it has to be written and
    # come back (the recorded finding is about columns that are only partly assigned - see Ctx.partial)
    groups = classes_of(r)
    rng = random.Random("nodefault-all:%s" % w.get("rng"))  # (own stream: the draws of the round trip stay those of the case rng)
    try:
        name = rng.choice(["ConvRatioCore", "absPerFisCore", "fisFrac", "fisRateCore"])
        r.core.p[name] = rng.uniform(0.1, 3.0)
        hist.append("nodefault-all:Core.%s" % name)
        rec.hit("workload.nodefault-column-fully-assigned")
        ccls = sorted((c for c in groups if issubclass(c, Component)), key=lambda c: c.__name__)
        if ccls:
            cls = rng.choice(ccls)
            name = rng.choice(["buRate", "zrFrac"])
            for o in groups[cls]:
                o.p[name] = rng.uniform(0, 1)
            hist.append("nodefault-all:%s.%s(%d)" % (cls.__name__, name, len(groups[cls])))
            rec.hit("workload.nodefault-column-fully-assigned")
    except Exception as e:
        rec.crash("history-op/nodefault-all", e, dict(w, history=hist))
    return hist


# ----------------------------------------------------------------------------- the round trip
# parameters that Core.processLoading recomputes from the loaded model (block masses, highest assembly number) and derived
# component quantities: judged against the ORIGINAL model (Ctx.fresh), never waved through by name
RECOMPUTED_ON_LOAD = ("kgHM", "kgFis", "puFrac", "maxAssemNum", "volume", "area")
KNOWN_STALE = ("kgHM", "kgFis", "puFrac", "maxAssemNum")


def _unset(v):
    return isinstance(v, tuple) and (v == ("unset",) or v[:1] == ("raises",))


def _close(a, b):
    if isinstance(a, bool) or isinstance(b, bool) or not isinstance(a, (int, float)) or not isinstance(b, (int, float)):
        return False
    return a == b or (a != a and b != b) or abs(a - b) <= TOLERANCES["recomputed_rel"] * max(abs(a), abs(b))


class Ctx:
    """What the ORIGINAL model says about the two recorded classes of difference, taken when it is observed (before the write):

    partial  (class, parameter) pairs where the parameter has no value on at least one object of the class and a value on another -
             the only case the finding 'nodefault-param-partially-assigned-column-dropped' is about;
    fresh    per observation index, the value a few public queries give NOW for the parameters the loader recomputes
             (block kgHM/kgFis/puFrac of core blocks, Core.maxAssemNum): the finding 'param-recomputed-on-load' is about a stored value
             that was stale relative to the model at write time, and the loaded value being the one the model implies.
    """

    def __init__(self, r, o):
        self.o = o
        objs = []

        def walk(x):
            objs.append(x)
            for k in list(x):
                walk(k)

        walk(r)
        assert len(objs) == len(o) and all(type(a).__name__ == b["cls"] for a, b in zip(objs, o))
        cnt = {}
        for x in o:
            for k, v in x["params"].items():
                c = cnt.setdefault((x["cls"], k), [0, 0])
                c[1 if _unset(v) else 0] += 1
        self.partial = {k for k, (nset, nun) in cnt.items() if nset and nun}
        self.fresh = {}
        core = r.core
        coreblocks = set(id(b) for a in core for b in a)
        for i, x in enumerate(objs):
            if x is core:
                nums = [a.p.assemNum for a in core]
                self.fresh[i] = {"maxAssemNum": max(nums) if nums else None}
            elif id(x) in coreblocks:
                try:
                    mb = x.p.molesHmBOL
                    self.fresh[i] = {"kgHM": float(x.getHMMass()) / 1000.0, "kgFis": float(x.getFissileMass()) / 1000.0,
                                     "puFrac": float(x.getPuMoles() / mb) if mb > 0.0 else 0.0}
                except Exception as e:  # (a history may have put something odd into molesHmBOL)
                    self.fresh[i] = {"error": repr(e)}


def judge_param(cls, name, oa, ob, ctx):
    """raw key unless EVERY differing object of the class shows exactly what the recorded finding describes"""
    raw = "param/%s/%s" % (cls, name)
    if (cls, name) not in ctx.partial:
        return raw
    from vlib import obs

    for x, y in zip(oa, ob):
        if x["cls"] != cls or name not in x["params"] or name not in y["params"]:
            continue
        u, v = x["params"][name], y["params"][name]
        if obs.values_equal(u, v):
            continue
        if _unset(u) or not _unset(v):
            return raw  # a value appeared from nowhere, or a value changed: not the dropped-column finding
    return "nodefault-param-partially-assigned-column-dropped"


def classify(key, msg, oa, ob, ctx):
    """mechanism keys for known classes of difference"""
    if key.startswith("loc/") and "'coord'" in msg and "'index'" in msg:
        return "locator/free-coordinate-becomes-index-location"
    parts = key.split("/")
    if parts[0] == "param" and "\"('seq', ())\" vs 'None'" in msg:
        # documented normalisation of the database encoding (judged in C05): an empty entry next to non-empty ones comes back unset
        return None
    if parts[0] in ("param", "dimension") and parts[-1] == "modArea" and ("None" in msg and (" 0" in msg or "'0'" in msg)):
        return "unset-dimension-reads-zero/modArea"
    if parts[0] == "param" and len(parts) == 3 and ("('raises', 'ParameterError')" in msg or "('unset',)" in msg):
        return judge_param(parts[1], parts[2], oa, ob, ctx)
    return key


def judge_recomputed(rec, oa, ob, ctx, ignore=()):
    """[(key, message)] for the parameters the loader recomputes; key None is never returned (within tolerance = no difference)"""
    from vlib import obs

    out = {}
    if len(oa) != len(ob):
        return []
    for i, (x, y) in enumerate(zip(oa, ob)):
        for name in RECOMPUTED_ON_LOAD:
            if name in ignore or (name not in x["params"] and name not in y["params"]):
                continue
            if name not in x["params"] or name not in y["params"]:
                out.setdefault("param-presence/%s/%s" % (x["cls"], name), "%s %s: parameter %s observed on one side only" % (x["cls"], x["name"], name))
                continue
            u, v = x["params"][name], y["params"][name]
            if name in KNOWN_STALE and name in ctx.fresh.get(i, {}):
                rec.hit("classify.recomputed-judged-against-original")
            if obs.values_equal(u, v) or _close(u, v):
                continue
            where = "%s %s: parameter %s differs: %r vs %r" % (x["cls"], x["name"], name, u, v)
            f = ctx.fresh.get(i, {}).get(name, "<not recomputed by the loader for this object>") if name in KNOWN_STALE else "<n/a>"
            if name in KNOWN_STALE and isinstance(f, (int, float)) and not _close(u, f) and _close(v, f):
                # stored value was stale when written (the model itself gives f), and the loader restored what the model gives
                out.setdefault("param-recomputed-on-load/%s" % name, where + " (the original model gives %r through public queries: the stored value was stale)" % (f,))
            else:
                out.setdefault("param/%s/%s" % (x["cls"], name), where + " (the original model gives %r through public queries; not the recorded stale-value case)" % (f,))
    return sorted(out.items())


def compare(rec, oa, ob, ctx, prefix, w, limit=400, ignore=()):
    from vlib import obs

    seen = set()
    found = [(classify(k, m, oa, ob, ctx), m) for k, m in obs.diff(oa, ob, limit=limit, ignore_params=tuple(ignore) + RECOMPUTED_ON_LOAD)]
    for k, m in found + judge_recomputed(rec, oa, ob, ctx, ignore):
        if k is None:
            rec.add("difference inside a documented normalisation (empty sequence next to values reads back unset)", 1)
            continue
        if k not in seen:
            seen.add(k)
            rec.violation(prefix + k, m, w)


def loaded_tree_monitors(rec, r, w, which):
    """B4: on every loaded reactor - each child's parent is its container, and the core's lookup tables agree with its children."""
    bad = None
    stack = [r]
    members = {}
    while stack:
        o = stack.pop()
        members[id(o)] = o
        for c in o:
            rec.hit("loaded-tree.parent-links")
            if c.parent is not o and bad is None:
                bad = "%r is listed by %r but its parent is %r" % (c, o, c.parent)
            stack.append(c)
    if bad:
        rec.violation("loaded-tree/parent-is-not-the-container", bad, dict(w, which=which))
    core = r.core
    if core.parent is not r or core.r is not r:
        rec.violation("loaded-tree/core-not-attached-to-reactor", "core.parent=%r core.r=%r" % (core.parent, core.r), dict(w, which=which))
    problems = []
    for a in core:
        rec.hit("loaded-tree.core-lookups")
        if core.assembliesByName.get(a.getName()) is not a:
            problems.append(("assembliesByName", a.getName()))
        if core.childrenByLocator.get(a.spatialLocator) is not a:
            problems.append(("childrenByLocator", a.getName()))
        for b in a:
            rec.hit("loaded-tree.core-lookups")
            if core.blocksByName.get(b.getName()) is not b:
                problems.append(("blocksByName", b.getName()))
    if len(core.childrenByLocator) != len(core):
        problems.append(("childrenByLocator", "%d entries for %d assemblies" % (len(core.childrenByLocator), len(core))))
    # (an assembly tracked in the spent fuel pool may stay in the name tables; anything listed must be a live member under its own name)
    for tab in ("assembliesByName", "blocksByName"):
        for k, v in getattr(core, tab).items():
            if id(v) not in members or v.getName() != k:
                problems.append((tab, "dangling or misnamed entry %r -> %r" % (k, v)))
    seen = set()
    for tab, what in problems:
        if tab not in seen:
            seen.add(tab)
            rec.violation("loaded-tree/core-lookup-disagrees-with-children/" + tab, "%s: %s (%d problems in all)" % (tab, what, len(problems)), dict(w, which=which))


def roundtrip(rec, rng, r, cs, bp, w, kind):
    from armi.bookkeeping.db import Database
    from vlib import obs

    r.p.cycle, r.p.timeNode = rng.randint(0, 3), rng.randint(0, 5)
    cyc, node = r.p.cycle, r.p.timeNode
    try:
        # documented normalisation: the database stores and restores the *sorted* child order.  Composite.sort() orders a
        # DerivedShape by its cached area, which may be stale right after a temperature edit, so bring the caches up to date
        # (one full observation) before sorting; otherwise the original would be left in an order sort() itself would not keep.
        obs.obs(r)
        r.sort()
        o0 = obs.obs(r)
        db = Database("c04-%d.h5" % rng.randrange(10 ** 9), "w")
        db.open()
        try:
            db.writeToDB(r)
            o0b = obs.obs(r)
            ctx = Ctx(r, o0b)
            d = obs.diff(o0, o0b)
            rec.hit("law.write-does-not-change-model")
            for k, m in d[:5]:
                rec.violation("write-changed-the-model/" + k, m, w)
            r1 = db.load(cyc, node, cs=cs, bp=bp)
            r2 = db.load(cyc, node, cs=cs, bp=bp)
            loaded_tree_monitors(rec, r1, w, "load #1")
            loaded_tree_monitors(rec, r2, w, "load #2")
            o1, o2 = obs.obs(r1), obs.obs(r2)
            rec.hit("law.roundtrip")
            rec.hit("law.roundtrip/" + kind)
            rec.hit("nodes.compared", len(o0))
            compare(rec, o0b, o1, ctx, "roundtrip/", w, limit=400)
            rec.hit("law.load-twice")
            for k, m in obs.diff(o1, o2)[:5]:
                rec.violation("load-twice-differs/" + k, m, w)
            if rng.random() < .5:
                # a labelled state point ("snapshot request") of the same cycle and node, written after the layout changed: two
                # assemblies exchanged, a block rotated, a temperature edit - same numbers of objects of each type. The labelled
                # group and the plain group are two snapshots: each loads back as the state that was written under its name.
                lab = rng.choice(["afterShuffle", "snap", "EOL-x1"])
                did = []
                try:
                    A_ = list(r.core)
                    if len(A_) >= 2 and rng.random() < .8:
                        a1, a2 = rng.sample(A_, 2)
                        l1, l2 = a1.spatialLocator, a2.spatialLocator
                        a1.moveTo(l2)
                        a2.moveTo(l1)
                        did.append("swap")
                    if rng.random() < .5:
                        b_ = rng.choice(r.core.getBlocks())
                        b_.p.power = rng.uniform(1, 100)
                        did.append("param")
                except Exception as e:
                    rec.crash("pre-state-point-op", e, dict(w, did=did))
                obs.obs(r)
                r.sort()
                oS = obs.obs(r)
                ctxS = Ctx(r, oS)
                db.writeToDB(r, statePointName=lab)
                rS = db.load(cyc, node, cs=cs, bp=bp, statePointName=lab)
                loaded_tree_monitors(rec, rS, w, "load of the labelled state point")
                rec.hit("law.roundtrip-labelled-state-point")
                if "swap" in did:
                    rec.hit("law.roundtrip-labelled-state-point/layout-differs-from-plain-node")
                compare(rec, oS, obs.obs(rS), ctxS, "roundtrip/", dict(w, did=did, which="state point %r of the same cycle and node" % lab), limit=200)
                rP = db.load(cyc, node, cs=cs, bp=bp)
                compare(rec, o0b, obs.obs(rP), ctx, "roundtrip/", dict(w, did=did, which="plain node, after state point %r was written beside it" % lab), limit=200)
            if isinstance(w.get("reactor"), str) and (w.get("case") == 0 or rng.random() < .4):
                # the restart / post-processing route: another process, which never assigned any of these parameters itself, loads the
                # snapshot, saves what it loaded and loads that again - equal states (flags kept per process must not decide what is written)
                fresh_process_resave(rec, db, w["reactor"], cyc, node, w)
            if rng.random() < .35:
                # a second write to the node that is already in the file, after two assemblies were exchanged: refused (the file keeps the
                # first state) or accepted (the file then holds the second state) - never layout of one and parameters of the other
                try:
                    A_ = list(r.core)
                    if len(A_) >= 2:
                        a1, a2 = rng.sample(A_, 2)
                        l1, l2 = a1.spatialLocator, a2.spatialLocator
                        a1.moveTo(l2)
                        a2.moveTo(l1)
                        rng.choice(a1.getChildren()).p.power = rng.uniform(1, 100)
                except Exception as e:
                    rec.crash("pre-rewrite-op", e, w)
                obs.obs(r)
                r.sort()
                oR = obs.obs(r)
                rec.hit("law.second-write-to-a-written-node")
                try:
                    db.writeToDB(r)
                    accepted = True
                except Exception:
                    accepted = False
                    rec.reject("second write to a node already in the file refused")
                rR = db.load(cyc, node, cs=cs, bp=bp)
                if accepted:
                    compare(rec, oR, obs.obs(rR), Ctx(r, oR), "roundtrip/", dict(w, which="node written twice, the second write was accepted"), limit=200)
                else:
                    compare(rec, o0b, obs.obs(rR), ctx, "roundtrip/", dict(w, which="node whose second write was refused"), limit=200)
            if rng.random() < .7:
                # a later time node of the SAME in-memory reactor, after changes that touch grids: conversion to full core,
                # pitch change, block height (axial grid bounds) and a little more history
                post = []
                try:
                    if str(r.core.symmetry.domain).lower().startswith("third") and type(r.core.spatialGrid).__name__ == "HexGrid" and rng.random() < .6:
                        from armi.reactor.converters.geometryConverters import ThirdCoreHexToFullCoreChanger
                        from vlib.env import quiet as _q

                        with _q():
                            ThirdCoreHexToFullCoreChanger(cs).convert(r)
                        post.append("third->full")
                    if type(r.core.spatialGrid).__name__ == "HexGrid" and rng.random() < .5:
                        r.core.spatialGrid.changePitch(r.core.spatialGrid.pitch * rng.uniform(1.0, 1.1))
                        post.append("changePitch")
                    if rng.random() < .6:
                        a_ = rng.choice(list(r.core))
                        b_ = rng.choice(list(a_))
                        h_ = b_.getHeight()
                        b_.setHeight(h_ * rng.uniform(.8, 1.3))
                        post.append("setHeight")
                        try:
                            for x_ in b_:
                                x_.clearCache()
                                x_.getVolume()
                        except ValueError:
                            # a block whose stated components fill the cell exactly (the grid plate of refTestCartesian:
                            # 90.25 + 9.75 = 100.0 cm2, derived coolant area 0) tips to a derived volume of -1e-12 cm3 by
                            # rounding at about one height in nine; armi then refuses to compute any volume of the block, so
                            # there is no observable state to write or compare: take the height back (DESIGN 9.4)
                            b_.setHeight(h_)
                            for x_ in b_:
                                x_.clearCache()
                            post[-1] = "setHeight (taken back: derived volume negative by rounding)"
                            rec.reject("post-op.setHeight-makes-volumes-uncomputable")
                    for b_ in r.core.getBlocks()[:5]:
                        b_.p.power = rng.uniform(1, 100)
                    post.append("params")
                except Exception as e:
                    rec.crash("post-write-op", e, dict(w, post=post))
                r.p.timeNode = node + 2
                obs.obs(r)
                r.sort()
                oL = obs.obs(r)
                ctxL = Ctx(r, oL)
                db.writeToDB(r)
                rL = db.load(cyc, node + 2, cs=cs, bp=bp)
                loaded_tree_monitors(rec, rL, w, "load of the later node")
                rec.hit("law.roundtrip-later-node")
                compare(rec, oL, obs.obs(rL), ctxL, "roundtrip/", dict(w, post=post, which="later node of the same in-memory reactor"), limit=200)
                r.p.timeNode = node
            if rng.random() < .6:
                # save the loaded reactor under another time step and load again: same state
                r1.p.timeNode = node + 1
                ctx1 = Ctx(r1, o1)
                db.writeToDB(r1)
                r3 = db.load(cyc, node + 1, cs=cs, bp=bp)
                loaded_tree_monitors(rec, r3, w, "load of the re-saved loaded reactor")
                r1.p.timeNode = node
                r3.p.timeNode = node
                o3 = obs.obs(r3)
                rec.hit("law.idempotent")
                compare(rec, o1, o3, ctx1, "not-idempotent/", w, limit=100, ignore=("timeNode",))
        finally:
            db.close()
            try:
                os.remove(db.fileName)
            except OSError:
                pass
    except Exception as e:
        import traceback as _tb

        if isinstance(e, ValueError) and "inhomogeneous shape" in str(e) and "jaggedArray.py" in "".join(_tb.format_tb(e.__traceback__)):
            # armi's documented refusal to write a column whose entries have differing numbers of dimensions (a history that gave one
            # table parameter a vector on some blocks and a table on others): nothing is written, nothing to compare (C05 judges refusals)
            rec.reject("write refused: a parameter column holds entries of differing numbers of dimensions")
            return
        rec.crash("roundtrip/" + kind, e, w)


if __name__ == "__main__":
    import sys as _sys

    if len(_sys.argv) > 1 and _sys.argv[1] == "--fresh-resave":
        _fresh_resave_main(_sys.argv[2:])
