"""Per-shard recorder: counts what the monitors actually observed."""
import collections
import hashlib
import json
import traceback


def sig_of(obj):
    s = json.dumps(obj, sort_keys=True, default=repr)
    return int.from_bytes(hashlib.blake2b(s.encode(), digest_size=8).digest(), "big")


def jsonable(o, depth=0):
    import numpy as np

    if depth > 8:
        return repr(o)[:200]
    if isinstance(o, (str, int, bool)) or o is None:
        return o
    if isinstance(o, float):
        return o if o == o and abs(o) != float("inf") else repr(o)
    if isinstance(o, np.generic):
        return jsonable(o.item(), depth + 1)
    if isinstance(o, np.ndarray):
        return jsonable(o.tolist(), depth + 1) if o.size <= 64 else {"ndarray": list(o.shape), "dtype": str(o.dtype)}
    if isinstance(o, dict):
        return {str(k): jsonable(v, depth + 1) for k, v in list(o.items())[:200]}
    if isinstance(o, (list, tuple, set, frozenset)):
        return [jsonable(v, depth + 1) for v in list(o)[:200]]
    return repr(o)[:300]


class Recorder:
    MAX_WITNESS_PER_KEY = 3

    def __init__(self, prop, spec):
        self.prop = prop
        self.spec = spec
        self.evaluations = 0
        self.sigs = set()
        self.samples = []
        self.hits = collections.Counter()
        self.rejected = collections.Counter()
        self.unjudged = collections.Counter()
        self.viol_count = collections.Counter()
        self.viol = {}
        self.notes = {}
        self.max_samples = 3

    # -- cases ---------------------------------------------------------------
    def case(self, signature, nontrivial=True, sample=None):
        """One judged execution. signature: JSON-able normal form of the case."""
        self.evaluations += 1
        if nontrivial:
            self.sigs.add(signature if isinstance(signature, int) else sig_of(signature))
        if sample is not None and len(self.samples) < self.max_samples:
            self.samples.append(jsonable(sample))

    def hit(self, name, n=1):
        self.hits[name] += n

    def reject(self, kind):
        self.rejected[kind] += 1

    def skip(self, kind):
        self.unjudged[kind] += 1

    def note(self, k, v):
        self.notes[k] = jsonable(v)

    def add(self, k, n=1):
        self.notes[k] = self.notes.get(k, 0) + n

    # -- verdicts ------------------------------------------------------------
    def violation(self, key, what, witness=None):
        self.viol_count[key] += 1
        lst = self.viol.setdefault(key, [])
        if len(lst) < self.MAX_WITNESS_PER_KEY:
            lst.append({"what": str(what)[:2000], "witness": jsonable(witness)})

    def crash(self, where, exc, witness=None):
        """An armi call that should have succeeded raised: a verdict, keyed by site and type."""
        tb = traceback.format_exception(type(exc), exc, exc.__traceback__)
        self.violation(
            "crash/%s/%s" % (where, type(exc).__name__),
            "%s raised %s: %s" % (where, type(exc).__name__, str(exc)[:300]),
            {"case": witness, "traceback": "".join(tb[-6:])[-3000:]},
        )

    def dump(self):
        from vlib import hooks

        for k, v in hooks.HITS.items():
            self.hits["hook:" + k] += v
        return {
            "spec": self.spec,
            "evaluations": self.evaluations,
            "sigs": sorted(self.sigs),
            "samples": self.samples,
            "hits": dict(self.hits),
            "rejected": dict(self.rejected),
            "unjudged": dict(self.unjudged),
            "viol_count": dict(self.viol_count),
            "viol": self.viol,
            "notes": self.notes,
        }
