#!/usr/bin/env python3
"""Regenerate the generated blocks of DESIGN.md (between <!-- BEGIN:x --> / <!-- END:x --> markers) from
known_findings.json, seeded/*/meta.json and selftest/results/*.json."""
import glob, json, os, re, subprocess, sys
ROOT = os.path.dirname(os.path.dirname(os.path.abspath(__file__)))


def out(cmd):
    return subprocess.run(cmd, capture_output=True, text=True, cwd=ROOT).stdout.strip()


def mutants():
    rows = ["| property | mutants caught / run | tier | missed (equivalent or out of reach, see text) |", "|---|---|---|---|"]
    for f in sorted(glob.glob(os.path.join(ROOT, "selftest", "results", "*.json"))):
        r = json.load(open(f))
        missed = ", ".join(m["name"] for m in r["mutants"] if not m["caught"]) or "-"
        rows.append("| %s | %d / %d | %s | %s |" % (r["property"], r["caught"], r["total"], r["tier"], missed))
    return "\n".join(rows)


blocks = {
    "findings": out(["python3", "tools/findings_table.py"]),
    "seeded": out(["python3", "tools/seedtable.py"]),
    "mutants": mutants(),
}
p = os.path.join(ROOT, "DESIGN.md")
s = open(p).read()
for k, v in blocks.items():
    pat = re.compile(r"(<!-- BEGIN:%s -->\n).*?(<!-- END:%s -->)" % (k, k), re.S)
    if not pat.search(s):
        print("marker missing:", k); sys.exit(1)
    s = pat.sub(lambda m: m.group(1) + v + "\n" + m.group(2), s)
open(p, "w").write(s)
print("DESIGN.md blocks regenerated:", ", ".join(blocks))
