"""C03 - thermal expansion conserves mass per unit height and scales dimensions.

Workload: every 2-D shaped component class x every solid library material x temperature paths inside the
material's stated range.  Monitor: a hook on the real ``Component.setTemperature`` records an event log
(T before/after, number densities, dimensions, area); an offline checker applies the closed-form laws with
the expansion factor f = (100+p(T))/(100+p(T0)) taken from the material's own linearExpansionPercent,
evaluated by the harness (never through the component methods under test).

Which dimensions expand is the generator's statement (all lengths it emits; never the counts mult/nHoles), compared with the
class attribute THERMAL_EXPANSION_DIMS.  UnshapedComponent (shape = its area) is judged by the area, number-density and path laws.
A hot value is written to an expanding dimension (reads back; cold = hot / f) and to a count (stored as given).  Linked
configurations come in Circle, Hexagon and Rectangle families; a link is written through (retainLink=True) or replaced by a plain
value (retainLink=False: owner untouched, the holder from then on expands that dimension with its own factor).

Not judged here: the values of the materials' expansion correlations themselves (C19).
"""
import math
import random

PROP = "C03"
LEVEL = "exploration"
RULE = (
    "cross product of every component class with is3D False discovered in ComponentType.TYPES (the abstract bases, NullComponent and DerivedShape are "
    "excluded by name with a stated reason; UnshapedComponent, whose 2-D shape is its area, is included) x every concrete material class in "
    "armi.materials (solids judged by the laws, fluids/custom judged for unchanged dimensions) x temperature paths of 1-8 steps inside the "
    "stated validity range; the set of thermally expanding dimensions is the generator's own (every dimension it emits except the pure counts "
    "mult/nHoles and the area of an unshaped component) and is compared with the class attribute; a hot value is set on one expanding and one "
    "non-expanding dimension; plus linked-dimension configurations for Circle, Hexagon and Rectangle families (pairs and chains of 3, in a block "
    "and free; writes through the link and writes that replace the link). distinct = (shape, material, path length, link config); "
    "non-trivial = the material's expansion differs between two visited temperatures."
)
TOLERANCES = {"law_rel": 1e-10, "path_rel": 1e-10, "readback_rel": 1e-12}
EXHAUSTIVE = {"quick": False, "thorough": True}
EXHAUSTIVE_PART = "thorough: every (2-D shape class x material class) pair at least 3 paths; quick: every pair once"
FLOORS = {"quick": {"law.area": 400, "law.ndens": 400, "law.dims": 400, "law.path": 400, "law.link": 100, "law.hotset": 200, "law.fluid": 20, "law.path-through-zero-celsius": 100, "hook:Component.setTemperature": 1000,
                    "law.area/unshapedcomponent": 20, "law.twin-holding-the-same-vector-untouched": 1000, "law.asked-at-another-temperature": 1000, "law.asked-at-another-temperature/helix": 60, "law.expanding-set": 400, "law.hotset-count": 200, "law.link/circle": 100, "law.link/hexagon": 100,
                    "law.link/rectangle": 100, "law.link-write": 60, "law.link-replace": 60, "law.link-unlinked-follow": 60},
          "thorough": {"law.area": 4000, "law.ndens": 4000, "law.dims": 4000, "law.path": 4000, "law.link": 1000, "law.hotset": 2000, "law.fluid": 200, "law.path-through-zero-celsius": 1000, "hook:Component.setTemperature": 10000,
                       "law.area/unshapedcomponent": 200, "law.twin-holding-the-same-vector-untouched": 10000, "law.asked-at-another-temperature": 10000, "law.asked-at-another-temperature/helix": 600, "law.expanding-set": 4000, "law.hotset-count": 2000, "law.link/circle": 1000, "law.link/hexagon": 1000,
                       "law.link/rectangle": 1000, "law.link-write": 600, "law.link-replace": 600, "law.link-unlinked-follow": 600}}
ASSUMPTIONS = [
    "the linear expansion factor between two temperatures is (100+p(T1))/(100+p(T0)) with p the material's own linearExpansionPercent, evaluated by the harness "
    "directly on the material object: C03 judges that components apply that factor consistently (area, number densities, dimensions, links); a wrong expansion "
    "correlation inside a material class is invisible here by design and is the business of C19 (material library)",
    "which dimensions of a shape expand is stated by the harness generator (all lengths; not the counts mult/nHoles), not read from the class under test",
]
# 2-D classes that are deliberately not part of the workload, with the reason (everything else with is3D False is judged or counted as unjudged)
EXCLUDED_SHAPES = {
    "component": "abstract base class, no dimensions",
    "shapedcomponent": "abstract base class, no dimensions",
    "nullcomponent": "placeholder without material or area",
    "derivedshape": "area is whatever the parent block leaves free, it has no dimensions of its own to expand",
}
COUNT_KEYS = ("mult", "nHoles")  # pure counts: never expand, a hot value is stored as given
NSHARDS = 12


def plan(tier, seed):
    return [{"name": "x%d" % i, "shard": i, "reps": 2 if tier == "quick" else 20, "links": 40 if tier == "quick" else 400} for i in range(NSHARDS)]


def shapes():
    from armi.reactor.components import ComponentType
    from armi.reactor.components.component import Component

    out = []
    for name, cls in sorted(ComponentType.TYPES.items()):
        if getattr(cls, "is3D", True) or name in EXCLUDED_SHAPES:
            continue
        out.append((name, cls))
    return out


def dims_for(name, rng):
    """Valid cold dimensions for each 2-D shape (positive area)."""
    u = rng.uniform
    if name == "circle":
        od = u(.2, 3)
        return {"od": od, "id": rng.choice([0.0, od * u(.1, .9)]), "mult": rng.choice([1, 7, 19, 271])}
    if name == "hexagon":
        op = u(1, 20)
        return {"op": op, "ip": rng.choice([0.0, op * u(.1, .95)]), "mult": rng.choice([1, 3])}
    if name == "rectangle":
        lo, wo = u(1, 10), u(1, 10)
        return {"lengthOuter": lo, "lengthInner": lo * u(0, .9), "widthOuter": wo, "widthInner": wo * u(0, .9), "mult": rng.choice([1, 4])}
    if name == "solidrectangle":
        return {"lengthOuter": u(1, 10), "widthOuter": u(1, 10), "mult": rng.choice([1, 2])}
    if name == "square":
        wo = u(1, 10)
        return {"widthOuter": wo, "widthInner": wo * u(0, .9), "mult": rng.choice([1, 9])}
    if name == "triangle":
        return {"base": u(.5, 5), "height": u(.5, 5), "mult": rng.choice([1, 6])}
    if name == "helix":
        od = u(.05, .3)
        return {"od": od, "id": rng.choice([0.0, od * u(.1, .8)]), "axialPitch": u(10, 40), "helixDiameter": u(.5, 2), "mult": rng.choice([1, 169])}
    if name == "hexholedcircle":
        od = u(2, 10)
        return {"od": od, "holeOP": od * u(.1, .6), "mult": 1}
    if name == "holedhexagon":
        op = u(5, 20)
        n = rng.choice([1, 7, 19])
        return {"op": op, "holeOD": op * u(.02, .12), "nHoles": n, "mult": 1}
    if name == "holedrectangle":
        lo, wo = u(2, 10), u(2, 10)
        return {"lengthOuter": lo, "widthOuter": wo, "holeOD": min(lo, wo) * u(.1, .8), "mult": 1}
    if name == "holedsquare":
        wo = u(2, 10)
        return {"widthOuter": wo, "holeOD": wo * u(.1, .8), "mult": 1}
    if name == "unshapedcomponent":
        return {"area": u(.1, 5)}
    return None


def expanding_keys(dims):
    """The generator's statement of which of the emitted dimensions are lengths that expand linearly."""
    return sorted(k for k in dims if k not in COUNT_KEYS and k != "area")


def material_classes():
    from armi import materials

    skip = {"Material", "Fluid", "SimpleSolid", "FuelMaterial", "_Mixture", "Water"}
    return [c for c in materials.iterAllMaterialClassesInNamespace(materials) if c.__name__ not in skip]


def temp_range_C(mat):
    pvt = getattr(mat, "propertyValidTemperature", {}) or {}
    for key in ("linear expansion percent", "linear expansion", "thermal expansion", "cumulative linear expansion"):
        if key in pvt:
            (lo, hi), u = pvt[key]
            if u == "K":
                lo, hi = lo - 273.15, hi - 273.15
            lo, hi = max(lo, -200.0), hi
            return lo + 0.01 * (hi - lo), hi - 0.01 * (hi - lo)
    return 20.0, 600.0


def zero_celsius_ok(scls, mname):
    """0 C is inside the stated validity range of the expansion law, or the material states none."""
    from armi import materials

    mat = getattr(materials, mname, None)
    pvt = getattr(mat, "propertyValidTemperature", {}) or {}
    for key in ("linear expansion percent", "linear expansion", "thermal expansion", "cumulative linear expansion"):
        if key in pvt:
            (lo, hi), u = pvt[key]
            if u == "K":
                lo, hi = lo - 273.15, hi - 273.15
            return lo <= 0.0 <= hi
    return True


def pct(mat, T):
    return mat.linearExpansionPercent(Tc=T)


LOG = []


def install_hook():
    from armi.reactor.components.component import Component
    from vlib import hooks

    def pre(a, kw):
        c = a[0]
        return (c.temperatureInC, dict(c.p.numberDensities))

    def post(tok, res, a, kw):
        c = a[0]
        LOG.append((id(c), tok[0], c.temperatureInC, tok[1], dict(c.p.numberDensities)))

    hooks.wrap(Component, "setTemperature", pre=pre, post=post)


def relclose(a, b, rel):
    return abs(a - b) <= rel * max(abs(a), abs(b), 1e-300)


def run_shard(spec, rec):
    from armi.materials import material as matmod
    from armi.materials import custom
    from armi.reactor import blocks

    install_hook()
    rng0 = random.Random(spec["rng"])
    shp = shapes()
    mats = material_classes()
    rec.note("shapes", [s for s, _ in shp])
    rec.note("n_materials", len(mats))
    pairs = [(s, m) for s in shp for m in mats]
    mine = [p for i, p in enumerate(pairs) if i % NSHARDS == spec["shard"]]
    for (sname, scls), mcls in mine:
        for rep in range(spec["reps"]):
            rng = random.Random("%s:%s:%s:%d" % (spec["rng"], sname, mcls.__name__, rep))
            one_component(rec, rng, sname, scls, mcls, matmod, custom)
    for i in range(spec["links"]):
        rng = random.Random("%s:link:%d" % (spec["rng"], i))
        one_link_case(rec, rng, mats, matmod, custom, blocks)


def is_fluidlike(m, matmod, custom):
    return isinstance(m, (matmod.Fluid, custom.Custom))


def one_component(rec, rng, sname, scls, mcls, matmod, custom):
    mname = mcls.__name__
    dims = dims_for(sname, rng)
    if dims is None:
        rec.skip("no dimension generator for shape " + sname)
        return
    try:
        probe = mcls()
    except Exception as e:
        rec.skip("material %s does not instantiate (judged in C19)" % mname)
        return
    lo, hi = temp_range_C(probe)
    Tin = rng.uniform(lo, lo + .3 * (hi - lo))
    Thot = rng.choice([Tin, rng.uniform(lo, hi)])
    w = {"shape": sname, "material": mname, "dims": dims, "Tinput": Tin, "Thot": Thot}
    try:
        c = scls("c", mname, Tin, Thot, **dims)
    except Exception as e:
        rec.reject("construct refused: %s(%s): %s" % (sname, mname, type(e).__name__))
        return
    mat = c.material
    fluid = is_fluidlike(mat, matmod, custom)
    npath = rng.randint(1, 8)
    path = [rng.uniform(lo, hi) for _ in range(npath)]
    if rng.random() < .3 and npath > 1:
        path[-1] = Thot  # return to start
    if zero_celsius_ok(scls, mname) and rng.random() < .3:
        # boundary value: a stop at exactly 0.0 C (falsy in python) followed by another temperature
        k = rng.randrange(len(path))
        path.insert(k, 0.0)
        if k == len(path) - 1:
            path.append(rng.uniform(lo, hi))
        rec.hit("law.path-through-zero-celsius")
    if rng.random() < .15:
        path.insert(rng.randrange(len(path) + 1), Tin)  # and one at exactly the input temperature
    w["path"] = path
    # which dimensions expand is the generator's statement, never the class attribute under test; the two are compared
    tedims = expanding_keys(dims)
    rec.hit("law.expanding-set")
    declared = set(scls.THERMAL_EXPANSION_DIMS)
    missing = sorted(set(tedims) - declared)
    # a declared key the shape does not have as a dimension (Square inherits Rectangle's length keys) is inert and only noted
    extra = sorted(k for k in declared - set(tedims) if k in dims or k in scls.DIMENSION_NAMES or k == "area")
    if missing or extra:
        rec.violation("dims/expanding-set-differs/%s" % sname, "%s.THERMAL_EXPANSION_DIMS = %s but the lengths of this shape are %s (missing %s, wrongly expanding %s)" % (
            scls.__name__, sorted(declared), tedims, missing, extra), w)
    ungenerated = sorted(k for k in scls.DIMENSION_NAMES if k not in dims and k != "modArea")
    if ungenerated:
        rec.skip("dimension not generated for shape %s: %s" % (sname, ",".join(ungenerated)))
    try:
        cold = {k: c.getDimension(k, cold=True) for k in tedims}
        for k in tedims:
            if cold[k] != dims[k]:
                rec.violation("dimension/cold-value-is-not-the-input", "%s.%s constructed with %r, cold value reads %r" % (sname, k, dims[k], cold[k]), dict(w, dim=k))
        if fluid:
            d0 = {k: c.getDimension(k) for k in tedims}
            a0 = c.getArea()
            for T in path:
                c.setTemperature(T)
            rec.hit("law.fluid")
            d1 = {k: c.getDimension(k) for k in tedims}
            if d0 != d1 or d0 != cold or c.getArea() != a0:
                rec.violation("fluid-or-custom/dimensions-moved", "%s %s component: dimensions changed under setTemperature: %s -> %s" % (mname, sname, d0, d1), w)
            rec.case(["fluid", sname, mname, npath], nontrivial=True)
            return
        p_in = pct(mat, Tin)
        p0 = pct(mat, Thot)
        N0 = dict(c.p.numberDensities)
        A0 = c.getArea()
        Acold0 = c.getArea(cold=True)
        # the area at the start is the cold area times the square of the factor input -> hot (for an unshaped component the cold area IS the input)
        f0 = (100.0 + p0) / (100.0 + p_in)
        if sname == "unshapedcomponent" and Acold0 != dims["area"]:
            rec.violation("area/cold-area-is-not-the-input/unshapedcomponent", "constructed with area=%r, cold area reads %r" % (dims["area"], Acold0), w)
        if not relclose(A0, Acold0 * f0 ** 2, TOLERANCES["law_rel"]):
            rec.violation("area/not-cold-area-times-square-of-factor/%s" % sname, "%s/%s area at %g C = %r, cold area %r x f^2 %r = %r" % (sname, mname, Thot, A0, Acold0, f0 ** 2, Acold0 * f0 ** 2), w)
        nontrivial = False
        Tprev, pprev = Thot, p0
        # a twin component that was handed the same composition vector (p.numberDensities assigned directly, copyParamsFrom): it stays
        # at its own temperature, so heating the first one must not touch its densities
        twin = scls("twin", mname, Tin, Thot, **dims)
        if rng.random() < .5:
            twin.p.numberDensities = c.p.numberDensities
        else:
            twin.copyParamsFrom(c)
        twin0 = dict(twin.p.numberDensities)
        for T in path:
            nlog = len(LOG)
            c.setTemperature(T)
            rec.hit("law.twin-holding-the-same-vector-untouched")
            if dict(twin.p.numberDensities) != twin0 and nontrivial is not None:
                rec.violation("aliasing/heating-one-component-changed-its-twin", "%s/%s: setTemperature(%g) on one component changed the number densities of a twin that was given the same vector" % (sname, mname, T), w)
                twin0 = dict(twin.p.numberDensities)
            pT = pct(mat, T)
            if pT != pprev:
                nontrivial = True
            ev = LOG[nlog] if len(LOG) > nlog else None
            if ev is None or ev[0] != id(c):
                rec.violation("monitor/setTemperature-not-observed", "setTemperature hook did not fire", w)
                return
            # per-step law on the event log: N' / N = ((100+p_prev)/(100+p_new))^2
            fstep = (100.0 + pT) / (100.0 + pprev)
            rec.hit("law.ndens")
            for nuc, n_before in ev[3].items():
                n_after = ev[4].get(nuc)
                if n_after is None or not relclose(n_after * fstep ** 2, n_before, TOLERANCES["law_rel"]):
                    rec.violation("ndens/not-inverse-square-of-expansion/%s" % ("step"),
                                  "%s/%s %g->%g C: N(%s) %r -> %r, expected factor %r" % (sname, mname, Tprev, T, nuc, n_before, n_after, fstep ** -2), dict(w, step=[Tprev, T]))
                    break
            # dimensions: cold * f(Tin -> T)
            f_in = (100.0 + pT) / (100.0 + p_in)
            rec.hit("law.dims")
            for k in tedims:
                got = c.getDimension(k)
                if not cold[k] and got != cold[k]:
                    rec.violation("dimension/zero-dimension-moved", "%s.%s is %r cold but reads %r at %g C" % (sname, k, cold[k], got, T), dict(w, dim=k, T=T))
                    break
                if cold[k] and not relclose(got, cold[k] * f_in, TOLERANCES["law_rel"]):
                    rec.violation("dimension/not-cold-times-factor/%s" % sname, "%s.%s at %g C = %r, cold %r x f %r = %r" % (sname, k, T, got, cold[k], f_in, cold[k] * f_in), dict(w, dim=k, T=T))
                    break
                if c.getDimension(k, cold=True) != cold[k]:
                    rec.violation("dimension/cold-value-changed", "cold %s changed %r -> %r" % (k, cold[k], c.getDimension(k, cold=True)), w)
            # the same questions asked for another temperature than the current one (Tc=...): every dimension and the area answer for
            # the temperature that was asked, not for a mixture of that and the component's own
            Tq = rng.choice(list(path) + [Tin, Thot])
            if Tq != T:
                fq = (100.0 + pct(mat, Tq)) / (100.0 + p_in)
                rec.hit("law.asked-at-another-temperature")
                rec.hit("law.asked-at-another-temperature/" + sname)
                try:
                    Aq = c.getArea(Tc=Tq)
                    if not relclose(Aq, Acold0 * fq ** 2, TOLERANCES["law_rel"]):
                        rec.violation("area/asked-at-another-temperature/%s" % sname, "%s/%s at %g C: getArea(Tc=%g) = %r, cold area %r x f(%g)^2 = %r" % (
                            sname, mname, T, Tq, Aq, Acold0, Tq, Acold0 * fq ** 2), dict(w, T=T, Tq=Tq))
                    for k in tedims:
                        gq = c.getDimension(k, Tc=Tq)
                        if cold[k] and not relclose(gq, cold[k] * fq, TOLERANCES["law_rel"]):
                            rec.violation("dimension/asked-at-another-temperature/%s" % sname, "%s.%s at %g C: getDimension(Tc=%g) = %r, cold %r x f = %r" % (
                                sname, k, T, Tq, gq, cold[k], cold[k] * fq), dict(w, dim=k, T=T, Tq=Tq))
                            break
                except TypeError:
                    rec.skip("shape does not take a temperature argument for its area")
            # non-expanding dims (mult, nHoles) never move
            for k in COUNT_KEYS:
                if k in dims and (c.getDimension(k) != dims[k] or c.getDimension(k, cold=True) != dims[k]):
                    rec.violation("dimension/non-expanding-moved", "%s changed to %r" % (k, c.getDimension(k)), w)
            Tprev, pprev = T, pT
        Tn = path[-1]
        fn = (100.0 + pct(mat, Tn)) / (100.0 + p0)
        An = c.getArea()
        rec.hit("law.area")
        rec.hit("law.area/" + sname)
        if c.getArea(cold=True) != Acold0:
            rec.violation("area/cold-area-changed", "%s/%s cold area %r -> %r after the temperature path" % (sname, mname, Acold0, c.getArea(cold=True)), w)
        if not relclose(An, A0 * fn ** 2, TOLERANCES["law_rel"]):
            rec.violation("area/not-square-of-expansion/%s" % sname, "%s/%s area %r -> %r, f^2=%r expected %r" % (sname, mname, A0, An, fn ** 2, A0 * fn ** 2), w)
        for nuc, n0 in N0.items():
            if not relclose(c.p.numberDensities.get(nuc, float("nan")) * An, n0 * A0, TOLERANCES["law_rel"]):
                rec.violation("mass-per-height/not-conserved", "%s/%s N*A of %s: %r -> %r" % (sname, mname, nuc, n0 * A0, c.p.numberDensities.get(nuc) * An), w)
                break
        # path independence: same end state as a fresh component taken there in one step
        c2 = scls("c", mname, Tin, Thot, **dims)
        c2.setTemperature(Tn)
        rec.hit("law.path")
        for nuc, n1 in c.p.numberDensities.items():
            if not relclose(n1, c2.p.numberDensities[nuc], TOLERANCES["path_rel"]):
                rec.violation("path-dependence/ndens", "%s/%s via %s: N(%s)=%r, direct %r" % (sname, mname, path, nuc, n1, c2.p.numberDensities[nuc]), w)
                break
        if not relclose(c.getArea(), c2.getArea(), TOLERANCES["path_rel"]) or any(not relclose(c.getDimension(k), c2.getDimension(k), TOLERANCES["path_rel"]) for k in tedims if cold[k]):
            rec.violation("path-dependence/dimensions", "%s/%s dimensions differ between path and direct" % (sname, mname), w)
        # setting a hot value on a pure count (mult, nHoles) stores exactly that value: counts do not expand
        counts = [k for k in COUNT_KEYS if k in dims]
        if counts:
            k = rng.choice(counts)
            others = {j: c.getDimension(j, cold=True) for j in dims if j != k}
            val = dims[k] + rng.choice([1, 6, 18])
            c.setDimension(k, val, cold=False)
            rec.hit("law.hotset-count")
            if c.getDimension(k) != val or c.getDimension(k, cold=True) != val:
                rec.violation("setDimension/hot-value-of-a-count-is-scaled", "%s.%s set (cold=False) to %r at %g C (input %g C), reads hot %r cold %r" % (
                    sname, k, val, Tn, Tin, c.getDimension(k), c.getDimension(k, cold=True)), dict(w, dim=k))
            if {j: c.getDimension(j, cold=True) for j in others} != others:
                rec.violation("setDimension/other-dimension-moved", "%s: setting %s changed another dimension" % (sname, k), dict(w, dim=k))
            c.setDimension(k, dims[k], cold=True)
            if c.getDimension(k) != dims[k]:
                rec.violation("setDimension/cold-value-does-not-read-back", "%s.%s cold set %r reads %r" % (sname, k, dims[k], c.getDimension(k)), dict(w, dim=k))
        # setting a hot dimension reads back
        if tedims:
            k = rng.choice(tedims)
            val = (cold[k] or 0.5) * rng.uniform(.9, 1.1)
            if sname in ("circle", "helix") and k == "id":
                val = min(val, c.getDimension("od") * .95)
            others = {j: c.getDimension(j, cold=True) for j in dims if j != k}
            c.setDimension(k, val, cold=False)
            rec.hit("law.hotset")
            if not relclose(c.getDimension(k), val, TOLERANCES["readback_rel"]):
                rec.violation("setDimension/hot-value-does-not-read-back", "%s.%s set hot to %r at %g C, reads %r" % (sname, k, val, Tn, c.getDimension(k)), dict(w, dim=k))
            # the stored cold value is the hot value divided by the factor input -> current
            if not relclose(c.getDimension(k, cold=True) * fn * f0, val, TOLERANCES["law_rel"]):
                rec.violation("setDimension/hot-value-not-divided-by-factor", "%s.%s set hot to %r at %g C: cold value %r x f %r = %r" % (
                    sname, k, val, Tn, c.getDimension(k, cold=True), fn * f0, c.getDimension(k, cold=True) * fn * f0), dict(w, dim=k))
            if {j: c.getDimension(j, cold=True) for j in others} != others:
                rec.violation("setDimension/other-dimension-moved", "%s: setting %s changed another dimension" % (sname, k), dict(w, dim=k))
            val2 = val * 1.01
            c.setDimension(k, val2, cold=True)
            if c.getDimension(k, cold=True) != val2:
                rec.violation("setDimension/cold-value-does-not-read-back", "%s.%s cold set %r reads %r" % (sname, k, val2, c.getDimension(k, cold=True)), w)
        rec.case(["solid", sname, mname, npath, Thot == Tin], nontrivial=nontrivial, sample=w if sname == "circle" and mname == "HT9" else None)
    except RuntimeError as e:
        if "Linear expansion percent may not be implemented" in str(e):
            rec.reject("no_expansion_law:" + mname)
        else:
            rec.crash("component/%s" % sname, e, w)
    except Exception as e:
        rec.crash("component/%s" % sname, e, w)


LINK_FAMILIES = {
    # family: (class name, [(outer key, inner key) per axis], closed-form area from {key: value} and mult)
    "circle": ("Circle", [("od", "id")], lambda d, m: math.pi / 4 * (d["od"] ** 2 - d["id"] ** 2) * m),
    "hexagon": ("Hexagon", [("op", "ip")], lambda d, m: math.sqrt(3.0) / 2 * (d["op"] ** 2 - d["ip"] ** 2) * m),
    "rectangle": ("Rectangle", [("lengthOuter", "lengthInner"), ("widthOuter", "widthInner")],
                  lambda d, m: (d["lengthOuter"] * d["widthOuter"] - d["lengthInner"] * d["widthInner"]) * m),
}


def one_link_case(rec, rng, mats, matmod, custom, blocks):
    """gap.<inner key> -> inner.<outer key>, gap.<outer key> -> outer.<inner key>, gap.mult -> inner.mult, for a Circle, Hexagon or
    Rectangle family; optional third component linked to the gap; in a block or free.  The harness keeps a model of which gap
    dimensions are still links and, for those replaced by a plain value (setDimension(retainLink=False)), of their cold value."""
    from armi.reactor import components

    solids = [m.__name__ for m in mats if m.__name__ in ("HT9", "UZr", "UO2", "B4C", "Zr", "Graphite", "Inconel600", "TZM", "MgO", "HastelloyN", "Cu", "Be9")]
    family = rng.choice(sorted(LINK_FAMILIES))
    clsname, axes, area_of = LINK_FAMILIES[family]
    cls = getattr(components, clsname)
    m1, m3 = rng.choice(solids), rng.choice(solids)
    mgap = rng.choice(["Sodium", "Void", "Custom"] + solids)
    inblock = rng.random() < .6
    T0 = 25.0
    mult0 = rng.choice([1, 7])
    size = {ok: rng.uniform(.4, 1.0) * (1 if family == "circle" else 10) for ok, _ in axes}  # nominal outer size of the inner component per axis
    w = {"family": family, "inner": m1, "gap": mgap, "outer": m3, "in_block": inblock, "size": size, "mult": mult0}
    try:
        din, dout, dgap, dliner = {"mult": mult0}, {"mult": mult0}, {"mult": "inner.mult"}, {"mult": mult0}
        owner_of = {"mult": ("inner", "mult")}  # gap key -> (owner name, owner key)
        for ok, ik in axes:
            din[ok], din[ik] = size[ok], rng.choice([0.0, size[ok] * .5])
            dout[ok], dout[ik] = size[ok] * 1.4, size[ok] * 1.2
            dgap[ok], dgap[ik] = "outer." + ik, "inner." + ok
            dliner[ok], dliner[ik] = "gap." + ok, "gap." + ik
            owner_of[ok], owner_of[ik] = ("outer", ik), ("inner", ok)
        inner = cls("inner", m1, T0, T0, **din)
        outer = cls("outer", m3, T0, T0, **dout)
        gap = cls("gap", mgap, T0, T0, components={"outer": outer, "inner": inner}, **dgap)
        comp = {"inner": inner, "outer": outer, "gap": gap}
        chain = None
        if rng.random() < .5:
            chain = cls("liner", rng.choice(solids), T0, T0, components={"gap": gap}, **dliner)
        if inblock:
            b = (blocks.CartesianBlock if family == "rectangle" else blocks.HexBlock)("fuel")
            b.setHeight(10.0)
            for c_ in (inner, gap, outer) + ((chain,) if chain else ()):
                b.add(c_)
        gapfluid = is_fluidlike(gap.material, matmod, custom)

        def f_gap():
            if gapfluid:
                return 1.0
            return (100.0 + pct(gap.material, gap.temperatureInC)) / (100.0 + pct(gap.material, gap.inputTemperatureInC))

        def newval(key, axis_ok):
            inner_side = owner_of[key][0] == "inner"
            return size[axis_ok] * (rng.uniform(.9, 1.05) if inner_side else rng.uniform(1.15, 1.25))

        linked = {k: True for k in owner_of}  # model: is gap.<k> still a link
        plain_cold = {}  # model: cold value of a gap dimension whose link was replaced
        geokeys = [(k, ok) for ok, ik in axes for k in (ok, ik)]
        seq = []
        for _ in range(rng.randint(1, 6)):
            who = rng.choice(["inner", "outer", "gap", "set-inner-outside-cold", "set-outer-inside-hot", "set-through-link-hot", "set-through-link-cold",
                              "replace-link-hot", "replace-link-cold", "replace-link-mult"])
            T = rng.uniform(20, 580)
            seq.append((who, T))
            if who in ("inner", "outer", "gap"):
                comp[who].setTemperature(T)
            elif who == "set-inner-outside-cold":
                ok, _ik = rng.choice(axes)
                inner.setDimension(ok, size[ok] * rng.uniform(.9, 1.05))
            elif who == "set-outer-inside-hot":
                ok, ik = rng.choice(axes)
                outer.setDimension(ik, size[ok] * rng.uniform(1.15, 1.25), cold=False)
            elif who in ("set-through-link-hot", "set-through-link-cold"):
                # write a linked dimension of the gap with retainLink: the value lands on the owner (inner.od / outer.id ...), which
                # converts a hot value with ITS OWN expansion factor; the hot value must read back on both sides
                key, axis_ok = rng.choice(geokeys)
                seq[-1] = (who, T, key)
                if not linked[key]:
                    continue  # that link was replaced earlier in this history; a plain write is judged by the replace-link steps
                owner, okey = comp[owner_of[key][0]], owner_of[key][1]
                val = newval(key, axis_ok)
                hotset = who.endswith("hot")
                gap.setDimension(key, val, retainLink=True, cold=not hotset)
                rec.hit("law.link-write")
                got_gap, got_owner = gap.getDimension(key, cold=not hotset), owner.getDimension(okey, cold=not hotset)
                if not relclose(got_owner, val, TOLERANCES["readback_rel"]) or not relclose(got_gap, val, TOLERANCES["readback_rel"]):
                    rec.violation("link/write-through-link-does-not-read-back/%s" % ("hot" if hotset else "cold"),
                                  "gap.setDimension(%s, %r, retainLink=True, cold=%s): gap reads %r, owner %s.%s reads %r" % (key, val, not hotset, got_gap, owner.name, okey, got_owner), dict(w, seq=seq))
                if not gap.dimensionIsLinked(key):
                    rec.violation("link/write-with-retainLink-dropped-the-link", "gap.%s is no longer a link after setDimension(retainLink=True)" % key, dict(w, seq=seq))
                if hotset:
                    p_in, p_now = pct(owner.material, owner.inputTemperatureInC), pct(owner.material, owner.temperatureInC)
                    f_owner = (100.0 + p_now) / (100.0 + p_in)
                    if not relclose(owner.getDimension(okey, cold=True) * f_owner, val, TOLERANCES["law_rel"]):
                        rec.violation("link/write-through-link-cold-value-not-owner-factor", "owner cold %s.%s = %r, hot %r / owner factor %r = %r" % (owner.name, okey, owner.getDimension(okey, cold=True), val, f_owner, val / f_owner), dict(w, seq=seq))
            else:
                # setDimension(retainLink=False) on a linked dimension: the link is replaced by the plain value (a hot value is converted with
                # the GAP's own factor; a count is stored as given), the former owner keeps its dimension, and the gap stops following it
                if who == "replace-link-mult":
                    key, val, hotset = "mult", mult0 + rng.choice([1, 5, 12]), rng.random() < .5
                else:
                    key, axis_ok = rng.choice(geokeys)
                    val, hotset = newval(key, axis_ok), who.endswith("hot")
                seq[-1] = (who, T, key)
                owner, okey = comp[owner_of[key][0]], owner_of[key][1]
                owner_before = (owner.getDimension(okey, cold=True), owner.getDimension(okey), owner.dimensionIsLinked(okey))
                was_linked = linked[key]
                gap.setDimension(key, val, retainLink=False, cold=not hotset)
                linked[key] = False
                rec.hit("law.link-replace" if was_linked else "law.link-plain-rewrite")
                fg = 1.0 if key == "mult" else f_gap()
                if gap.dimensionIsLinked(key):
                    rec.violation("link/replace-link-kept-the-link", "gap.%s is still a link after setDimension(%r, retainLink=False)" % (key, val), dict(w, seq=seq))
                got = gap.getDimension(key, cold=not hotset)
                if (key == "mult" and got != val) or not relclose(got, val, TOLERANCES["readback_rel"]):
                    rec.violation("link/replace-link-does-not-read-back/%s" % ("count" if key == "mult" else "hot" if hotset else "cold"),
                                  "gap.setDimension(%s, %r, retainLink=False, cold=%s) reads back %r" % (key, val, not hotset, got), dict(w, seq=seq))
                gcold = gap.getDimension(key, cold=True)
                if hotset and not relclose(gcold * fg, val, TOLERANCES["law_rel"]):
                    rec.violation("link/replace-link-hot-value-not-divided-by-own-factor", "gap.%s set hot to %r: cold value %r x gap factor %r = %r" % (key, val, gcold, fg, gcold * fg), dict(w, seq=seq))
                plain_cold[key] = gcold
                owner_after = (owner.getDimension(okey, cold=True), owner.getDimension(okey), owner.dimensionIsLinked(okey))
                if owner_after != owner_before:
                    rec.violation("link/replace-link-changed-the-owner", "gap.setDimension(%s, %r, retainLink=False) changed %s.%s: (cold, hot, linked) %r -> %r" % (
                        key, val, owner.name, okey, owner_before, owner_after), dict(w, seq=seq))
            rec.hit("law.link")
            rec.hit("law.link/" + family)
            bad = None
            for key, (oname, okey) in sorted(owner_of.items()):
                owner = comp[oname]
                gh, gc = gap.getDimension(key), gap.getDimension(key, cold=True)
                if linked[key]:
                    # a linked dimension always equals the owner's current dimension
                    if gh != owner.getDimension(okey) or gc != owner.getDimension(okey, cold=True):
                        bad = ("link/linked-dimension-differs-from-target", "gap.%s=%r (cold %r) but %s.%s=%r (cold %r)" % (key, gh, gc, oname, okey, owner.getDimension(okey), owner.getDimension(okey, cold=True)))
                else:
                    # a replaced link is an ordinary dimension of the gap: cold value as stored, hot = cold x the gap's own factor
                    rec.hit("law.link-unlinked-follow")
                    fg = 1.0 if key == "mult" else f_gap()
                    if gc != plain_cold[key] or not relclose(gh, plain_cold[key] * fg, TOLERANCES["law_rel"]):
                        bad = ("link/replaced-link-not-an-own-dimension", "gap.%s (link replaced by %r cold) reads cold %r hot %r, own factor %r; %s.%s=%r" % (
                            key, plain_cold[key], gc, gh, fg, oname, okey, owner.getDimension(okey)))
                if chain and key != "mult" and (chain.getDimension(key) != gh or chain.getDimension(key, cold=True) != gc):
                    bad = ("link/linked-dimension-differs-from-target", "liner.%s=%r but gap.%s=%r" % (key, chain.getDimension(key), key, gh))
                if bad:
                    rec.violation(bad[0], "after %s: %s" % (seq, bad[1]), dict(w, seq=seq))
                    break
            # the linked component's area follows (no stale cache): closed form of the family from the gap's current dimensions
            now = {k: gap.getDimension(k) for k, _ in geokeys}
            exp_area = area_of(now, gap.getDimension("mult"))
            if not relclose(gap.getArea(), exp_area, 1e-12):
                rec.violation("link/stale-area", "gap area %r, from its current dimensions %r" % (gap.getArea(), exp_area), dict(w, seq=seq))
            if inblock and not relclose(gap.getVolume(), exp_area * b.getHeight(), 1e-12):
                rec.violation("link/stale-volume", "gap volume %r, from its current dimensions %r" % (gap.getVolume(), exp_area * b.getHeight()), dict(w, seq=seq))
            if chain and not relclose(chain.getArea(), area_of(now, mult0), 1e-12):
                rec.violation("link/stale-area", "liner area %r, from the gap's current dimensions %r" % (chain.getArea(), area_of(now, mult0)), dict(w, seq=seq))
        rec.case(["link", family, m1, mgap, m3, inblock, bool(chain), [s[0] for s in seq]], sample=dict(w, seq=seq) if rng.random() < .02 else None)
    except RuntimeError as e:
        if "Linear expansion percent may not be implemented" in str(e):
            rec.reject("no_expansion_law(link)")
        else:
            rec.crash("link", e, w)
    except Exception as e:
        rec.crash("link", e, w)
