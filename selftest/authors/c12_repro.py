import sys; sys.path.insert(0, "/verif")
from vlib import env; env.setup()
import os
from armi.testing import loadTestReactor
from armi.tests import TEST_ROOT
from armi.reactor.flags import Flags
from armi.reactor.converters.axialExpansionChanger import AxialExpansionChanger
o, r = loadTestReactor(os.path.join(TEST_ROOT, "detailedAxialExpansion"), customSettings={"inputHeightsConsideredHot": True})
a = r.core.getFirstAssembly(Flags.FUEL)
fuel = [c for b in a for c in b if c.hasFlags(Flags.FUEL)]
plenum = next(b for b in a if b.hasFlags(Flags.PLENUM)); clad = plenum.getComponent(Flags.CLAD)
m0 = clad.getMass()
AxialExpansionChanger().performPrescribedAxialExpansion(a, fuel, [1.04] * len(fuel))   # only the fuel grows 4 %; plenum clad factor 1.0
print(plenum.p.axialExpTargetComponent, m0, clad.getMass(), clad.getMass() / m0, "clad.zbottom", clad.zbottom, "block zbottom", plenum.p.zbottom, "height", plenum.getHeight())
