"""C18 - the reactor built from blueprints is the reactor the blueprints describe.

The oracle is the generator's own *spec* (plain dicts): armi only ever sees the YAML text rendered from it.

Sub-oracles
* faithfulness: every location named in the core map (text maps and explicit ``grid contents``) holds an assembly of the
  specified design; blocks in order with the specified heights / xs types / mesh points / type names / flags; components with
  the specified shape class, material class, Tinput/Thot, multiplicity (numeric, linked, or learned from a pin lattice),
  cold dimensions (numeric exact; linked -> the link points at the *named component object of the same block*), and
  composition computed independently: material default mass fractions (data) -> material modifications (closed forms) ->
  custom isotopics (mass fractions / number fractions / number densities) -> elemental expansion per the nuclide flags ->
  N = rho * w * K / A;
* lattice maps: an independent renderer/parser of every text-map format (validated against the literal fixtures of
  armi/utils/tests/test_asciimaps.py before anything is judged); armi reads my text to my contents; text -> contents ->
  text -> contents is idempotent; indexed contents are drawn as text that reads back to them or refused;
  GridBlueprint round trip through saveToStream;
* determinism: two constructions of the same text are observationally equal; construction-order independence: the same designs
  built in another file order (or the last one alone) have the same composition; the parsed blueprint inputs (custom isotopics
  vectors, assembly lists, component attributes) are unchanged by construction; a custom isotopic shared by several users gives
  every unmodified user exactly the written composition even when an earlier user also received a material modification;
* refusal: planted inconsistencies (unknown specifier, overlapping solids, duplicate names, unequal list lengths, missing
  nuclide flag ...) must raise; a refusal by an exception armi raised about the input (InputError / ValueError / yamlize error / the
  ArithmeticError of the negative-area check / a KeyError with a message) is told apart from a document that merely died in a failing
  operation (counted as `invalid.refused-by-crash/<kind>/<ExcType>`; AttributeError / TypeError / IndexError ... are violations);
* geometry of the built grids (core grid and every block pin grid a `grid name` section describes): grid class, geometry type,
  symmetry (domain, boundary, through-centre) against the meaning of the symmetry string, hex orientation (flats / corners up), hex pitch,
  centres of off-axis cells and of every assembly against the closed forms read off the HexGrid / CartesianGrid docstrings, Cartesian
  steps = lattice pitch and the position of cell (0,0) (odd-by-odd through the centre, even-by-even half a cell off), theta-RZ bounds;
* component area: getComponentArea(cold=True) against the elementary-geometry formula of the shape evaluated on the written dimensions
  (links followed in the document, lattice multiplicities counted from the map), for every shape class;
* shape probes: every component shape class a blueprint can name is built from text in a small core of its own.
"""
import io
import math
import random

PROP = "C18"
LEVEL = "exploration"
RULE = (
    "generated blueprint documents of three families (hex flats-up third/full and corners-up full/third with pin-type blocks, prismatic blocks "
    "(compacts and linked gaps in the holes of a HoledHexagon) and blocks of the less common shapes (HoledHexagon, HexHoledCircle, "
    "HoledRectangle, HoledSquare, SolidRectangle, Rectangle, Square, Hexagon, Sphere, UnshapedComponent, with inserts linked to the hole "
    "dimensions), optional pin lattices with or without a stated pin pitch, material modifications incl. class1/class2 blending, custom "
    "isotopics (also one named vector shared by several designs, an earlier user modified, a later one not), explicit flags, expandTo "
    "nuclide flags, xs types of one letter (either case) or two letters; Cartesian full/quarter cores of pin cells or holed / solid "
    "rectangles in square/rectangular cans; theta-RZ cores of RadialSegment / DifferentialRadialSegment on grid bounds), core maps as "
    "independently rendered text or explicit index lists, 1-4 assembly designs of 1-8 blocks; shape probes (one small hex core per "
    "component shape class, all 15 classes a blueprint can name for a hex block); plus pure lattice-map cases (1-9 rings, holes) and "
    "planted inconsistencies one at a time. A case = one document (or one map / one planted inconsistency); distinct = normal form of "
    "the document layout (geometry, symmetry, map form, designs x block kinds x shapes x materials, modification / isotopics kinds); "
    "non-trivial = at least 2 components of different materials and at least 2 mapped locations (maps: at least 2 cells). Components, "
    "compositions, links, areas and pin grids are compared at every location of cores with at most 30 assemblies (larger cores: the "
    "first location of each design and about one in five of the others). NOT judged (counted as unjudged): the density of a library "
    "material carrying a custom-isotopics density when Thot != Tinput (the thermal scaling of the override is not documented), the "
    "composition of a component carrying both custom isotopics and a material modification, the spatial grid armi infers for a block "
    "without a `grid name`, the position of cell (0,0) of a full Cartesian map drawn with placeholder padding."
)
TOLERANCES = {
    "stored_exact": 0.0,  # heights, temperatures, dimensions, mult, xs type, mesh points: ==
    "massfrac_rel": 1e-9,  # N_i*A_i / sum(N*A) vs reference mass fraction
    "massfrac_abs": 1e-14,
    "density_rel": 1e-9,  # sum(N_i*A_i)/K vs reference hot density
    "ndens_rel": 1e-9,  # number densities given directly (custom isotopics as number densities)
    "z_rel": 1e-12,  # block z bounds = cumulative sums of heights
    "material_consistency_rel": 1e-9,  # pseudoDensity/(1+dLL) == density, precondition of the density oracle (else skip)
    "coordinate_rel": 1e-9,  # cell / assembly centres vs closed form, in units of the pitch
    "area_rel": 1e-9,  # getComponentArea(cold=True) vs the elementary-geometry formula of the shape on the written dimensions
}
DEEP_ALL_UP_TO = 30  # cores with at most this many mapped locations are compared in full depth at every location
EXHAUSTIVE = {"quick": False, "thorough": False}
EXHAUSTIVE_PART = "text-map formats: every literal fixture map of armi/utils/tests/test_asciimaps.py is parsed and re-rendered by the independent renderer and by armi"
FLOORS = {
    # every floor is at most half of the smallest count seen over seeds 0-5 (quick) / seeds 0-1 (thorough); map.fixture counts the 8 fixture maps of armi's own test module per maps shard (a fixed number)
    "quick": {"placement": 1200, "block": 4500, "component": 20000, "dimension": 40000, "link": 10000, "massfrac": 18000, "density": 18000,
              "matmod": 500, "custom-isotopics": 1500, "pin-lattice": 2000, "flags": 25000, "map.fixture": 4, "map.read-mine": 150,
              "map.text-roundtrip": 120, "map.contents-roundtrip": 75, "map.contents.annular-offered": 9, "grid.save-roundtrip": 145, "determinism": 30, "invalid.refused": 25,
              "inputs-unchanged": 140, "order-independence": 28, "shared-isotopics.unmodified-user": 80, "class-blend": 100,
              "docs.cart-map-with-placeholder-padding": 6,
              "geometry.grid": 1000, "geometry.symmetry": 1000, "geometry.hex-orientation": 750, "geometry.pitch": 700, "geometry.cell-centre": 3300,
              "geometry.assembly-centre": 1100, "geometry.rz-bounds": 20, "area": 17000, "area.HoledHexagon": 400, "area.HexHoledCircle": 130,
              "area.HoledRectangle": 130, "area.HoledSquare": 120, "area.SolidRectangle": 170, "area.Sphere": 110, "area.UnshapedComponent": 120,
              "area.DifferentialRadialSegment": 120, "area.Helix": 1200, "shape-probe.built": 18},
    "thorough": {"placement": 28000, "block": 100000, "component": 450000, "dimension": 1000000, "link": 250000, "massfrac": 400000, "density": 400000,
                 "matmod": 13000, "custom-isotopics": 40000, "pin-lattice": 55000, "flags": 600000, "map.fixture": 4, "map.read-mine": 1400,
                 "map.text-roundtrip": 1200, "map.contents-roundtrip": 750, "map.contents.annular-offered": 93, "grid.save-roundtrip": 1400, "determinism": 500, "invalid.refused": 200,
                 "inputs-unchanged": 3000, "order-independence": 700, "shared-isotopics.unmodified-user": 2500, "class-blend": 2500,
                 "docs.cart-map-with-placeholder-padding": 150,
                 "geometry.grid": 25000, "geometry.symmetry": 25000, "geometry.hex-orientation": 18000, "geometry.pitch": 16000, "geometry.cell-centre": 80000,
                 "geometry.assembly-centre": 25000, "geometry.rz-bounds": 500, "area": 380000, "area.HoledHexagon": 10000, "area.HexHoledCircle": 3000,
                 "area.HoledRectangle": 3500, "area.HoledSquare": 3500, "area.SolidRectangle": 3800, "area.Sphere": 2800, "area.UnshapedComponent": 3000,
                 "area.DifferentialRadialSegment": 4500, "area.Helix": 28000, "shape-probe.built": 350},
}
TIMEOUT = {"quick": 900, "thorough": 7200}
ASSUMPTIONS = [
    "each material class's default mass-fraction table, its density(T) / linearExpansionPercent(T) functions, atomic weights and natural "
    "abundances of the nuclide directory are trusted as data (C19 judges them); the density oracle is applied only to materials whose "
    "pseudoDensity(T)/(1+dLL(T)) equals density(T) on a fresh instance (otherwise skipped and counted)",
    "reference density after a material modification is taken from a fresh instance of the material class on which the harness itself "
    "calls applyInputParams with the modification it wrote for that block/component (the materials package is data here; routing, "
    "custom isotopics, elemental expansion and the conversion to number densities are the blueprint layer being judged)",
    "settings are the defaults (inputHeightsConsideredHot=True, xsKernel MC2v3: C stays elemental, HE->HE4, O->O16, W without W180 unless expandTo is given)",
    "a component carrying BOTH custom isotopics and a material modification is built but its composition is not judged (the combination "
    "is not documented); every other user of the same isotopics vector is judged exactly",
    "text-map formats are taken from the docstrings of armi/utils/asciimaps.py and the literal fixtures of its test module (data)",
    "cell-centre closed forms are read off the two index pictures of the HexGrid docstring and the through-centre / offset paragraph of the "
    "CartesianGrid docstring; the meaning of a symmetry string (domain, boundary, through centre) is the vocabulary of armi/reactor/geometry.py (documentation as data)",
]

SQ3 = math.sqrt(3.0)


# =====================================================================================================================
# 1. text-map formats: independent renderer and parser (a text map is a picture: lines are descending y, tokens ascending x)
# =====================================================================================================================
def ring_of(i, j):
    return max(abs(i), abs(j), abs(i + j))


def in_third(i, j):
    """First third of a flats-up hex map: polar angle of the cell centre in [0, 120) degrees, by integer arithmetic.
    Centre of (i,j) is (sqrt3/2*i, i/2+j): angle>=0 <=> i+2j>=0 (for i>=0); left of the y axis angle<120 <=> 2i+j>0."""
    if i >= 0:
        return i + 2 * j >= 0
    return 2 * i + j > 0


def _par_up(v, parity):
    return v if (v - parity) % 2 == 0 else v + 1


def _par_down(v, parity):
    return v if (v - parity) % 2 == 0 else v - 1


def fmt_third(contents):
    """flats-up third core. Row r = i+2j (2*y/pitch), bottom row r=0 starts at (0,0); each row starts at its leftmost cell lying
    in the first third and steps i by 2.  Returns list of token lists, top line first."""
    rmax = max(i + 2 * j for i, j in contents)
    lines = []
    for r in range(rmax, -1, -1):
        i0 = _par_up(int(math.floor(-r / 3.0)) + 1, r % 2)  # smallest i > -r/3 with the parity of r
        if r == 0:
            i0 = 0
        cells = [i for (i, j) in contents if i + 2 * j == r]
        if not cells:
            lines.append(["-"])
            continue
        toks = []
        for i in range(i0, max(cells) + 1, 2):
            toks.append(contents.get((i, (r - i) // 2), "-"))
        lines.append(toks)
    return lines


def parse_third(lines):
    out = {}
    n = len(lines)
    for k, toks in enumerate(lines):
        r = n - 1 - k
        i0 = 0 if r == 0 else _par_up(int(math.floor(-r / 3.0)) + 1, r % 2)
        for c, t in enumerate(toks):
            i = i0 + 2 * c
            out[(i, (r - i) // 2)] = t
    return out


def fmt_full_flat(contents, R=None):
    """flats-up full core of outline size R (cells with ring index <= R).  Row L = i+2j+2R counted from the bottom corner (0,-R).
    A row starts at the leftmost cell with i >= -R and i+j >= -R (left and lower-left edges; NOT clipped by the upper-left edge,
    so the rows above the upper-left corner begin with placeholders) and runs to the right edge of the hexagon.  The outline is
    implied by the longest row (R+1 tokens); c rows may be omitted at top and bottom alike (corners), the bottom row then has c+1 tokens."""
    if R is None:
        R = max(ring_of(i, j) for i, j in contents)
    rows = {}
    for L in range(0, 4 * R + 1):
        r = L - 2 * R
        i0 = _par_up(max(-R, -L), L % 2)
        i1 = _par_down(min(R, L, 4 * R - L), L % 2)
        rows[L] = [contents.get((i, (r - i) // 2), "-") for i in range(i0, i1 + 1, 2)]
    cut = 0
    while cut < R and all(t == "-" for t in rows[cut]) and all(t == "-" for t in rows[4 * R - cut]):
        cut += 1
    return [rows[L] for L in range(4 * R - cut, cut - 1, -1)]


def parse_full_flat(lines):
    R = max(len(t) for t in lines) - 1
    cut = len(lines[-1]) - 1
    out = {}
    n = len(lines)
    for k, toks in enumerate(lines):
        L = (n - 1 - k) + cut
        r = L - 2 * R
        i0 = _par_up(max(-R, -L), L % 2)
        for c, t in enumerate(toks):
            i = i0 + 2 * c
            out[(i, (r - i) // 2)] = t
    return out


def fmt_full_tips(contents, R=None):
    """corners-up full core.  Centre of (i,j) is ((i-j)/2, sqrt3/2*(i+j)): a line holds the cells of one i+j, the top line i+j=R;
    column c of every line is i = -R + c (so upper lines begin with placeholders), lines run to the right edge of the hexagon."""
    if R is None:
        R = max(ring_of(i, j) for i, j in contents)
    lines = []
    for li in range(2 * R + 1):
        r = R - li
        i1 = min(R, R + r)
        lines.append([contents.get((i, r - i), "-") for i in range(-R, i1 + 1)])
    return lines


def parse_full_tips(lines):
    R = (max(len(t) for t in lines) - 1) // 2
    out = {}
    for li, toks in enumerate(lines):
        r = R - li
        for c, t in enumerate(toks):
            out[(-R + c, r - (-R + c))] = t
    return out


def fmt_cart(contents, i0, j0, nx, ny):
    """Cartesian: column = i - i0, line from the bottom = j - j0; full rectangle, no trimming."""
    return [[contents.get((i0 + c, j0 + l), "-") for c in range(nx)] for l in range(ny - 1, -1, -1)]


def parse_cart(lines, i0=0, j0=0):
    out = {}
    n = len(lines)
    for k, toks in enumerate(lines):
        for c, t in enumerate(toks):
            out[(i0 + c, j0 + n - 1 - k)] = t
    return out


def lines_to_text(lines, stagger=None):
    w = max(len(t) for ln in lines for t in ln)
    out = []
    for k, ln in enumerate(lines):
        pad = " " * (stagger(k) if stagger else 0)
        out.append(pad + " ".join(t.ljust(w) for t in ln).rstrip())
    return "\n".join(out) + "\n"


def text_to_lines(text):
    return [ln.split() for ln in text.strip().splitlines()]


def strip_ph(d):
    return {k: v for k, v in d.items() if v != "-"}


MAPFMT = {
    # kind: (geom, symmetry, formatter, parser, armi class name)
    "hex-third": ("hex", "third periodic", fmt_third, parse_third, "AsciiMapHexThirdFlatsUp"),
    "hex-full": ("hex", "full", fmt_full_flat, parse_full_flat, "AsciiMapHexFullFlatsUp"),
    "hexcu-full": ("hex_corners_up", "full", fmt_full_tips, parse_full_tips, "AsciiMapHexFullTipsUp"),
    "cart": ("cartesian", "full", None, parse_cart, "AsciiMapCartesian"),
}


def hex_cells(R):
    return [(i, j) for i in range(-R, R + 1) for j in range(-R, R + 1) if ring_of(i, j) <= R]


def validate_formats_against_fixtures(rec):
    """The independent renderer/parser must reproduce the literal maps of the repo's asciimaps test module (data) and the literal
    cell values asserted there.  A mismatch is a harness error (raises), never a verdict."""
    from armi.utils.tests import test_asciimaps as T

    def same(a, b):
        return [list(x) for x in a] == [list(x) for x in b]

    cases = [
        ("hex-third", T.HEX_THIRD_MAP, {(7, 0): "2", (8, 0): "3", (8, -4): "2", (0, 8): "3", (0, 0): "1"}),
        ("hex-third", T.HEX_THIRD_MAP_2, {(5, 0): "TG"}),
        ("hex-third", T.HEX_THIRD_MAP_WITH_HOLES, {(1, 1): "-", (5, 0): "TG"}),
        ("hex-third", T.HEX_THIRD_MAP_WITH_EMPTY_ROW, {(1, 1): "-", (6, 0): "-", (5, 0): "TG"}),
        ("hexcu-full", T.HEX_FULL_MAP, {(-9, 9): "7", (-8, 0): "6", (-1, 0): "2", (-1, 8): "8", (0, -6): "3", (0, 0): "0", (9, 0): "4"}),
        ("hex-full", T.HEX_FULL_MAP_FLAT, {(-3, 10): "ORS", (0, -9): "ORS", (0, 0): "IC", (0, 9): "ORS", (4, -6): "RR7", (6, 0): "RR7", (7, -1): "RR89", (-5, 2): "VOTA", (2, 3): "FS"}),
        ("hex-full", T.HEX_FULL_MAP_SMALL, {(0, 0): "F"}),
        ("cart", T.CARTESIAN_MAP, {(0, 0): "2", (1, 1): "3", (2, 2): "3", (3, 3): "1"}),
    ]
    out = []
    for kind, text, literals in cases:
        lines = text_to_lines(text)
        parse = MAPFMT[kind][3]
        got = parse(lines)
        for k, v in literals.items():
            if got.get(k) != v:
                raise AssertionError("harness map parser %s disagrees with fixture literal %r: %r != %r" % (kind, k, got.get(k), v))
        cont = strip_ph(got)
        if kind == "cart":
            re_lines = fmt_cart(cont, 0, 0, max(len(t) for t in lines), len(lines))
        elif kind == "hex-third":
            re_lines = fmt_third(cont)
        elif kind == "hex-full":
            re_lines = fmt_full_flat(cont)
        else:
            re_lines = fmt_full_tips(cont)
        if kind == "hex-third":
            # fixtures trim nothing but trailing placeholders; an all-placeholder row is drawn by me as a single placeholder
            norm = [(ln if any(t != "-" for t in ln) else ["-"]) for ln in lines]
            norm = [_rstrip_ph(ln) or ["-"] for ln in norm]
            ok = same(re_lines, norm)
        else:
            # my full-map rows are never trimmed on the right; fixtures may be -> compare after trimming both
            ok = same([_rstrip_ph(x) for x in re_lines], [_rstrip_ph(x) for x in lines])
        if not ok:
            raise AssertionError("harness map renderer %s does not reproduce the fixture map" % kind)
        rec.hit("map.fixture")
        out.append((kind, text, cont))
    return out


def _rstrip_ph(ln):
    ln = list(ln)
    while ln and ln[-1] == "-":
        ln.pop()
    return ln


# =====================================================================================================================
# 2. document generator (spec = plain dicts; the YAML text is rendered from it)
# =====================================================================================================================
ADJECTIVES = ["inner", "outer", "middle", "lower", "upper", "axial", "radial", "a", "b", "c", "test", "primary", "secondary"]
KIND_WORD = {"fuel": "fuel", "control": "control", "shield": "shield", "reflector": "reflector", "plenum": "plenum"}
ACCEPTED_MODS = {"UZr": ("U235_wt_frac", "ZR_wt_frac"), "UO2": ("U235_wt_frac", "TD_frac"), "B4C": ("B10_wt_frac", "TD_frac")}
BLEND_KEYS = ("class1_wt_frac", "class1_custom_isotopics", "class2_custom_isotopics")  # FuelMaterial: remix the heavy metal from two feeds
BLEND_MATS = ("UZr", "UO2")
XS_TYPES = list("ABCDEFXYZ") + ["a", "b", "q", "z", "AA", "AB", "ZA", "Bc"]  # one letter of either case, or two letters (Block.getMicroSuffix docstring)
ISO_ELEMENTS = ["FE", "CR", "NI", "MO", "MN", "SI", "C", "ZR", "NA", "O", "W", "V", "HE", "U"]
ISO_NUCLIDES = ["U235", "U238", "PU239", "PU240", "B10", "B11", "AL27", "U234"]


def _name(rng, word, uniq):
    adj = rng.sample(ADJECTIVES, rng.choice([0, 0, 1, 1, 2]))
    return " ".join(adj + [word, str(uniq)])


def _fmt(v):
    if isinstance(v, bool):
        return "true" if v else "false"
    if isinstance(v, float):
        return repr(v)
    return str(v)


def render(spec):
    """spec -> YAML text (superset of vlib.gen.render_blueprint: block/assembly/component flags, expandTo, mesh points, isotopics)."""
    out = io.StringIO()
    w = out.write
    if spec.get("custom isotopics"):
        w("custom isotopics:\n")
        for nm, iso in spec["custom isotopics"].items():
            w("    %s:\n" % nm)
            for k, v in iso.items():
                w("        %s: %s\n" % (k, _fmt(v)))
    if spec.get("nuclide flags") is not None:
        w("nuclide flags:\n")
        for nm, fl in spec["nuclide flags"].items():
            extra = ""
            if fl.get("expandTo"):
                extra = ", expandTo: [%s]" % ", ".join(fl["expandTo"])
            w("    %s: {burn: %s, xs: %s%s}\n" % (nm, _fmt(bool(fl.get("burn", False))), _fmt(bool(fl.get("xs", True))), extra))
    anchors = {}
    w("blocks:\n")
    for k, (bname, b) in enumerate(spec["blocks"].items()):
        anchors[bname] = "blk%d" % k
        w("    %s: &%s\n" % (bname, anchors[bname]))
        if b.get("grid name"):
            w("        grid name: %s\n" % b["grid name"])
        if b.get("flags"):
            w("        flags: %s\n" % b["flags"])
        for c in b["components"]:
            w("        %s:\n" % c["name"])
            for key, v in c.items():
                if key == "name":
                    continue
                if key == "latticeIDs":
                    w("            latticeIDs: [%s]\n" % ", ".join(v))
                else:
                    w("            %s: %s\n" % (key, _fmt(v)))
    w("assemblies:\n")
    for aname, a in spec["assemblies"].items():
        w("    %s:\n" % aname)
        if a.get("flags"):
            w("        flags: %s\n" % a["flags"])
        w("        specifier: %s\n" % a["specifier"])
        w("        blocks: [%s]\n" % ", ".join("*%s" % anchors[b] for b in a["blocks"]))
        w("        height: [%s]\n" % ", ".join(_fmt(float(h)) for h in a["height"]))
        w("        axial mesh points: [%s]\n" % ", ".join(str(int(m)) for m in a["axial mesh points"]))
        if a.get("radial mesh points"):
            w("        radial mesh points: %d\n" % a["radial mesh points"])
        if a.get("azimuthal mesh points"):
            w("        azimuthal mesh points: %d\n" % a["azimuthal mesh points"])
        w("        xs types: [%s]\n" % ", ".join(a["xs types"]))
        mm = a.get("material modifications")
        if mm:
            w("        material modifications:\n")
            for key, v in mm.items():
                if key == "by component":
                    w("            by component:\n")
                    for cname, mods in v.items():
                        w("                %s:\n" % cname)
                        for mk, mv in mods.items():
                            w("                    %s: [%s]\n" % (mk, ", ".join("''" if x == "" else _fmt(x) for x in mv)))
                else:
                    w("            %s: [%s]\n" % (key, ", ".join("''" if x == "" else _fmt(x) for x in v)))
    w("systems:\n")
    for sname, s in spec["systems"].items():
        w("    %s:\n" % sname)
        if s.get("type"):
            w("        type: %s\n" % s["type"])
        w("        grid name: %s\n" % s["grid name"])
        o = s["origin"]
        w("        origin: {x: %s, y: %s, z: %s}\n" % (_fmt(float(o[0])), _fmt(float(o[1])), _fmt(float(o[2]))))
    w("grids:\n")
    for gname, g in spec["grids"].items():
        w(render_grid(gname, g, indent="    "))
    return out.getvalue()


def grid_map_text(g):
    """Independent text rendering of a grid spec's contents (see section 1)."""
    kind = g["mapkind"]
    c = g["contents"]
    if kind == "hex-third":
        lines = fmt_third(c)
        n = len(lines)
        return lines_to_text(lines, stagger=lambda k: (n - k) % 2)
    if kind == "hex-full":
        lines = fmt_full_flat(c, g.get("R"))
        return lines_to_text(lines, stagger=lambda k: k % 2)
    if kind == "hexcu-full":
        return lines_to_text(fmt_full_tips(c, g.get("R")), stagger=lambda k: k)
    if kind in ("cart-full", "cart-quarter"):
        i0, j0, nx, ny = g["rect"]
        return lines_to_text(fmt_cart(c, i0, j0, nx, ny))
    raise ValueError(kind)


def render_grid(gname, g, indent=""):
    out = io.StringIO()
    w = lambda s: out.write(indent + s)
    w("%s:\n" % gname)
    w("    geom: %s\n" % g["geom"])
    if g.get("symmetry"):
        w("    symmetry: %s\n" % g["symmetry"])
    if g.get("lattice pitch"):
        lp = g["lattice pitch"]
        w("    lattice pitch: {x: %s, y: %s}\n" % (_fmt(float(lp[0])), _fmt(float(lp[1]))))
    if g.get("grid bounds"):
        w("    grid bounds:\n")
        for k, v in g["grid bounds"].items():
            w("        %s: [%s]\n" % (k, ", ".join(_fmt(float(x)) for x in v)))
    if g.get("form") == "text":
        w("    lattice map: |4\n")
        for line in grid_map_text(g).splitlines():
            w("        %s\n" % line)
    else:
        w("    grid contents:\n")
        for (i, j), s in g["contents"].items():
            w("        [%d, %d]: %s\n" % (i, j, s))
    return out.getvalue()


# ---------------------------------------------------------------------------------------------- core maps
def random_hex_contents(rng, mapkind, R, specs, holes):
    cells = hex_cells(R)
    if mapkind == "hex-third":
        cells = [c for c in cells if in_third(*c)]
    cont = {}
    for c in cells:
        if c != (0, 0) and rng.random() < holes:
            continue
        cont[c] = rng.choice(specs)
    cont.setdefault((0, 0), specs[0])
    if R > 0 and max(ring_of(*c) for c in cont) < R:  # keep the outline: one cell on the outer ring
        outer = [c for c in cells if ring_of(*c) == R]
        cont[rng.choice(outer)] = rng.choice(specs)
    return cont


def core_grid(rng, mapkind, specs, R=None, holes=None):
    geom, sym = {"hex-third": ("hex", "third periodic"), "hex-full": ("hex", "full"), "hexcu-full": ("hex_corners_up", "full"),
                 "hexcu-third": ("hex_corners_up", "third periodic")}[mapkind]
    R = rng.choice([0, 1, 1, 2, 2, 2, 3, 3, 4]) if R is None else R
    holes = rng.choice([0.0, 0.1, 0.3]) if holes is None else holes
    cont = random_hex_contents(rng, "hex-third" if mapkind.endswith("third") else mapkind, R, specs, holes)
    g = {"geom": geom, "symmetry": sym, "contents": cont, "mapkind": mapkind, "R": max(ring_of(*c) for c in cont)}
    g["form"] = "contents" if mapkind == "hexcu-third" else rng.choice(["text", "text", "contents"])
    return g


# ---------------------------------------------------------------------------------------------- hex documents
def hex_document(rng, size=None):
    from vlib import gen

    mapkind = rng.choice(["hex-third", "hex-third", "hex-full", "hexcu-full", "hexcu-third"])
    pitch = rng.uniform(8, 18)
    ndes = rng.randint(1, 4)
    coolant = rng.choice(["Sodium", "Sodium", "Lead", "LeadBismuth"])
    free_mesh = rng.random() < .35  # designs with unrelated axial meshes (needs detailedAxialExpansion)
    spec = {"blocks": {}, "assemblies": {}, "grids": {}, "custom isotopics": {}, "settings": {}}
    if free_mesh:
        spec["settings"]["detailedAxialExpansion"] = True
    ref_heights = [round(rng.uniform(5, 40), rng.choice([1, 3, 6])) for _ in range(rng.randint(1, 8))]
    uniq = [0]
    specs = []
    for d in range(ndes):
        if free_mesh and d > 0:
            heights = [round(rng.uniform(5, 40), 3) for _ in range(rng.randint(1, 8))]
        elif d > 0 and len(ref_heights) > 1 and rng.random() < .4:  # coarser mesh: merge neighbouring reference intervals
            cuts = sorted(rng.sample(range(1, len(ref_heights)), rng.randint(0, len(ref_heights) - 1)))
            edges = [0] + cuts + [len(ref_heights)]
            cum = [0.0]
            for h in ref_heights:
                cum.append(cum[-1] + h)
            heights = [cum[b] - cum[a] for a, b in zip(edges[:-1], edges[1:])]
        else:
            heights = list(ref_heights)
        nb_ = len(heights)
        bnames = []
        for k in range(nb_):
            if rng.random() < .25 and bnames:  # reuse a block design (same anchor twice)
                bnames.append(rng.choice(bnames))
                continue
            kind = rng.choice(["fuel", "fuel", "fuel", "control", "shield", "reflector", "plenum"])
            uniq[0] += 1
            special = rng.random()
            if special < .12:  # prismatic block: compacts in the holes of a HoledHexagon
                bn = _name(rng, "fuel", uniq[0])
                bs = prismatic_block_spec(rng, pitch, coolant, hot=rng.random() < .85)
            elif special < .30:  # a block of the less common shape classes
                bn = _name(rng, rng.choice(["shield", "reflector"]), uniq[0])
                bs = shapes_block_spec(rng, pitch, coolant, hot=rng.random() < .85)
            else:
                bn = _name(rng, KIND_WORD[kind], uniq[0])
                bs = gen.pin_block_spec(rng, kind=kind, pitch=pitch, npins=rng.choice(gen.HEX_PIN_COUNTS[:5]), coolant=coolant, hot=rng.random() < .85)
            decorate_block(rng, spec, bn, bs)
            spec["blocks"][bn] = bs
            bnames.append(bn)
        uniq[0] += 1
        aname = _name(rng, rng.choice(["fuel", "control", "shield", "reflector", "blanket", "feed"]), uniq[0])
        specifier = rng.choice(["A%d", "IC%d", "%dX", "s%d", "Z_%d"]) % d
        specs.append(specifier)
        a = {"specifier": specifier, "blocks": bnames, "height": heights, "axial mesh points": [rng.randint(1, 4) for _ in range(nb_)],
             "xs types": [rng.choice(XS_TYPES) for _ in range(nb_)]}
        if rng.random() < .25:
            a["flags"] = " ".join(rng.sample(["fuel", "test", "control", "inner", "outer", "feed", "b"], rng.randint(1, 3)))
        if rng.random() < .2:
            a["radial mesh points"] = rng.randint(1, 4)
        if rng.random() < .2:
            a["azimuthal mesh points"] = rng.randint(1, 7)
        add_material_mods(rng, spec, a)
        spec["assemblies"][aname] = a
    if rng.random() < .3:
        shared_isotopics_scenario(rng, spec)
    add_custom_isotopics(rng, spec)
    g = core_grid(rng, mapkind, specs, R=size)
    if rng.random() < .4:
        g["lattice pitch"] = (pitch, 0.0) if rng.random() < .5 else (round(pitch * rng.uniform(1.0, 1.05), 4), 0.0)
    spec["grids"]["core"] = g
    spec["systems"] = {"core": {"grid name": "core", "origin": (rng.choice([0.0, 12.5, -3.0]), rng.choice([0.0, 7.25]), rng.choice([0.0, 100.0]))}}
    spec["pitch"] = pitch
    spec["family"] = "hex"
    finish_flags(rng, spec)
    return spec


# ---------------------------------------------------------------------------------------------- blocks of the less common shapes
SHAPE_MATERIALS = ["HT9", "Zr", "Inconel600", "Graphite"]
SHAPES_2D = ["HoledHexagon", "HexHoledCircle", "HoledRectangle", "HoledSquare", "SolidRectangle", "UnshapedComponent", "Sphere", "Rectangle", "Square", "Hexagon"]


def _hexarea(p):
    return SQ3 / 2.0 * p * p


def shape_component(rng, shape, name, A, hot, mult=None):
    """One component of class `shape` whose outline (holes included, all `mult` copies) covers about A cm2, plus - sometimes - an insert
    that fills its hole through links (od / op linked to the hole dimension, mult linked to the holder's mult).
    Returns a list of component dicts (holder first)."""
    u = rng.uniform
    mat = rng.choice(SHAPE_MATERIALS)
    Th = round(u(150, 600), 2) if hot else 25.0
    m = mult if mult is not None else rng.choice([1, 1, 2, 3, 6])
    a1 = A / m
    d = {"name": name, "shape": shape, "material": mat, "Tinput": 25.0, "Thot": Th}
    extra = []
    rd_ = lambda x: round(x, rng.choice([3, 5, 9]))
    if shape == "HoledHexagon":
        op = rd_(math.sqrt(a1 / (SQ3 / 2.0)))
        n = rng.choice([1, 1, 3, 7, 19])
        hod = rd_(math.sqrt(u(.05, .5) * _hexarea(op) / (n * math.pi / 4.0)))
        d.update(op=op, holeOD=hod, nHoles=n, mult=m)
        if n == 1 and rng.random() < .6:
            extra.append({"name": name + " insert", "shape": "Circle", "material": rng.choice(SHAPE_MATERIALS), "Tinput": 25.0, "Thot": Th, "id": rng.choice([0.0, rd_(hod * u(.2, .7))]),
                          "od": "%s.holeOD" % name, "mult": "%s.mult" % name})
    elif shape == "HexHoledCircle":
        od = rd_(2.0 * math.sqrt(a1 / math.pi))
        hop = rd_(od * u(.1, .7))
        d.update(od=od, holeOP=hop, mult=m)
        if rng.random() < .6:
            extra.append({"name": name + " insert", "shape": "Hexagon", "material": rng.choice(SHAPE_MATERIALS), "Tinput": 25.0, "Thot": Th, "ip": rng.choice([0.0, rd_(hop * u(.2, .7))]),
                          "op": "%s.holeOP" % name, "mult": "%s.mult" % name})
    elif shape in ("HoledRectangle", "SolidRectangle", "Rectangle"):
        asp = u(1.0, 2.0)
        w = rd_(math.sqrt(a1 / asp))
        l = rd_(asp * w)
        if rng.random() < .5:
            l, w = w, l
        d.update(lengthOuter=l, widthOuter=w)
        if shape == "HoledRectangle":
            d.update(holeOD=rd_(min(l, w) * u(.1, .8)))
            if rng.random() < .5:
                extra.append({"name": name + " insert", "shape": "Circle", "material": rng.choice(SHAPE_MATERIALS), "Tinput": 25.0, "Thot": Th, "id": 0.0, "od": "%s.holeOD" % name, "mult": "%s.mult" % name})
        elif shape == "Rectangle":
            d.update(lengthInner=rd_(l * u(0, .9)), widthInner=rd_(w * u(0, .9)))
        d.update(mult=m)
    elif shape in ("HoledSquare", "Square"):
        w = rd_(math.sqrt(a1))
        d.update(widthOuter=w)
        if shape == "HoledSquare":
            d.update(holeOD=rd_(w * u(.1, .8)))
            if rng.random() < .5:
                extra.append({"name": name + " insert", "shape": "Circle", "material": rng.choice(SHAPE_MATERIALS), "Tinput": 25.0, "Thot": Th, "id": 0.0, "od": "%s.holeOD" % name, "mult": "%s.mult" % name})
        else:
            d.update(widthInner=rd_(w * u(0, .9)))
        d.update(mult=m)
    elif shape == "Hexagon":
        op = rd_(math.sqrt(a1 / (SQ3 / 2.0)))
        d.update(ip=rng.choice([0.0, rd_(op * u(.1, .9))]), op=op, mult=m)
    elif shape == "Triangle":
        b_ = rd_(math.sqrt(2.0 * a1 * u(.6, 1.6)))
        d.update(base=b_, height=rd_(2.0 * a1 / b_), mult=m)
    elif shape == "UnshapedComponent":
        d.update(area=rd_(A))
    elif shape == "Sphere":
        od = rd_(u(.3, 1.5))
        per = math.pi / 6.0 * od ** 3 / 5.0  # blocks are at least 5 cm tall: cross-section share of one sphere is at most this
        d.update(od=od, id=rng.choice([0.0, rd_(od * u(.2, .8))]), mult=max(1, min(60, int(A / per))))
    elif shape == "Cube":
        e = rd_(min(2.0, math.sqrt(a1)))
        d.update(lengthOuter=e, lengthInner=0.0, widthOuter=e, widthInner=0.0, heightOuter=e, heightInner=0.0, mult=m)
    elif shape == "UnshapedVolumetricComponent":
        d.update(area=rd_(A), volume=rd_(A * 5.0))
    elif shape == "Circle":
        od = rd_(2.0 * math.sqrt(a1 / math.pi))
        d.update(id=rng.choice([0.0, rd_(od * u(.1, .9))]), od=od, mult=m)
    elif shape == "Helix":
        od = rd_(u(.05, .2))
        d.update(axialPitch=rd_(u(10, 40)), helixDiameter=rd_(u(.5, 2)), id=0.0, od=od, mult=max(1, int(A / (math.pi / 4.0 * od * od * 1.2))))
    else:
        raise ValueError(shape)
    return [d] + extra


def shapes_block_spec(rng, pitch, coolant, hot, shapes=None):
    """A hex block of 1-4 components of the less common shape classes (+ linked inserts), DerivedShape coolant, duct, intercoolant.
    The outlines of the shapes take at most 55 % of the duct's inside, so the derived coolant area is positive, and every shape is
    smaller than the duct, so the outermost Hexagon defines the block."""
    duct_op = pitch - .3
    duct_ip = duct_op - 2 * pitch * .02
    n = len(shapes) if shapes else rng.randint(1, 4)
    budget = .55 * _hexarea(duct_ip) / n
    Tc = round(rng.uniform(350, 500), 2) if hot else 25.0
    Ts = round(rng.uniform(350, 500), 2) if hot else 25.0
    comps = []
    for k in range(n):
        shape = shapes[k] if shapes else rng.choice(SHAPES_2D)
        comps += shape_component(rng, shape, "%s %d" % (shape.lower()[:7], k), budget * rng.uniform(.3, .9), hot)
    smat = rng.choice(["HT9", "Zr", "Inconel600"])
    comps.append({"name": "coolant", "shape": "DerivedShape", "material": coolant, "Tinput": Tc, "Thot": Tc})
    comps.append({"name": "duct", "shape": "Hexagon", "material": smat, "Tinput": 25.0, "Thot": Ts, "ip": duct_ip, "op": duct_op, "mult": 1})
    comps.append({"name": "intercoolant", "shape": "Hexagon", "material": coolant, "Tinput": Tc, "Thot": Tc, "ip": "duct.op", "op": pitch, "mult": 1})
    return {"components": comps, "pitch": pitch, "npins": 0, "kind": "shapes"}


def prismatic_block_spec(rng, pitch, coolant, hot):
    """Prismatic block: n fuel compacts (Circle) and their gaps (Void, linked to fuel.od and to the matrix's holeOD) in the n holes of
    a HoledHexagon matrix; a Hexagon of coolant between the matrix and the lattice pitch."""
    u = rng.uniform
    op = round(pitch - u(.2, .5), 4)
    n = rng.choice([1, 7, 19, 37])
    hod = round(math.sqrt(u(.15, .5) * _hexarea(op) / (n * math.pi / 4.0)), 5)
    Tf = round(u(500, 800), 2) if hot else 25.0
    Ts = round(u(350, 500), 2) if hot else 25.0
    Tc = round(u(350, 500), 2) if hot else 25.0
    comps = [
        {"name": "fuel", "shape": "Circle", "material": rng.choice(["UZr", "UO2"]), "Tinput": 25.0, "Thot": Tf, "id": 0.0, "od": round(hod * u(.8, .97), 5), "mult": n},
        {"name": "gap", "shape": "Circle", "material": "Void", "Tinput": Tc, "Thot": Tc, "id": "fuel.od", "od": "matrix.holeOD", "mult": rng.choice(["fuel.mult", "matrix.nHoles"])},
        {"name": "matrix", "shape": "HoledHexagon", "material": rng.choice(["Graphite", "HT9"]), "Tinput": 25.0, "Thot": Ts, "op": op, "holeOD": hod, "nHoles": n, "mult": 1},
        {"name": "intercoolant", "shape": "Hexagon", "material": coolant, "Tinput": Tc, "Thot": Tc, "ip": "matrix.op", "op": pitch, "mult": 1},
    ]
    return {"components": comps, "pitch": pitch, "npins": n, "kind": "prismatic"}


def decorate_block(rng, spec, bname, bs):
    """Optional extras on a pin block: explicit flags, a pin lattice (grid name + latticeIDs), explicit component flags."""
    if rng.random() < .25:
        bs["flags"] = " ".join(rng.sample(["fuel", "test", "shield", "control", "a", "b", "lower", "upper", "plenum", "depletable"], rng.randint(1, 3)))
    comps = bs["components"]
    pins = [c for c in comps if c["shape"] in ("Circle", "Helix")]
    if rng.random() < .35 and pins and bs["npins"] >= 1:
        # pin lattice: the block's pins sit on a full hex grid; multiplicity is learned from the map
        R = next(r for r in range(0, 12) if 1 + 3 * r * (r + 1) >= bs["npins"])
        ids = rng.choice([["F"], ["F", "G"], ["P1", "P2"]])
        cont = {}
        for cell in hex_cells(R):
            if rng.random() < .15 and cell != (0, 0):
                continue
            cont[cell] = rng.choice(ids)
        extra = rng.random() < .3
        if extra:
            spare = [c for c in cont if c != (0, 0)]
            if spare:
                cont[rng.choice(spare)] = "XX"  # an id no component uses: position stays empty
        gname = "pins %s" % bname
        mk = rng.choice(["hexcu-full", "hex-full"])
        spec["grids"][gname] = {"geom": "hex_corners_up" if mk == "hexcu-full" else "hex", "symmetry": "full", "contents": cont, "mapkind": mk,
                                "R": max(ring_of(*c) for c in cont), "form": rng.choice(["text", "contents"]), "pin": True}
        if rng.random() < .5:  # a stated pin pitch (otherwise armi builds a unit grid)
            spec["grids"][gname]["lattice pitch"] = (round(rng.uniform(.5, 2.5), 4), 0.0)
        bs["grid name"] = gname
        first = pins[0]
        use = ids if rng.random() < .7 else ids[:1]
        for c in pins:
            c["latticeIDs"] = list(use)
        if bs.get("kind") == "prismatic":
            # the compacts sit in the holes of the matrix: as many holes as lattice positions (armi compares the assemblies' areas)
            if not any(v in use for v in cont.values()):
                cont[(0, 0)] = use[0]
            next(c for c in comps if c["name"] == "matrix")["nHoles"] = sum(1 for v in cont.values() if v in use)
        n = sum(1 for v in cont.values() if v in use)
        mode = rng.choice(["omit", "one", "equal"])
        if mode == "omit":
            first.pop("mult", None)
        elif mode == "one":
            first["mult"] = 1
        else:
            first["mult"] = n
        for c in pins:
            if c is not first:
                c.pop("mult", None)  # a link such as fuel.mult is refused by armi on a latticed component (documented: leave mult off)
        bs["lattice_count"] = n
    if rng.random() < .15:
        c = rng.choice(comps)
        c["flags"] = " ".join(rng.sample(["clad", "fuel", "depletable", "primary", "liner", "structure", "b"], rng.randint(1, 2)))


def add_material_mods(rng, spec, a):
    """Material modifications by block and by component, drawn from what the fuel/absorber material of each block accepts."""
    if rng.random() > .45:
        return
    nb_ = len(a["blocks"])
    mats = []
    for bn in a["blocks"]:
        m = [c["material"] for c in spec["blocks"][bn]["components"] if c["material"] in ACCEPTED_MODS]
        mats.append(m[0] if m else None)
    mm = {}
    for key in ("U235_wt_frac", "ZR_wt_frac", "TD_frac", "B10_wt_frac"):
        if rng.random() < .5:
            vals = []
            for k in range(nb_):
                ok = mats[k] is not None and key in ACCEPTED_MODS[mats[k]]
                if ok and rng.random() < .7:
                    vals.append(round({"U235_wt_frac": rng.uniform(.002, .95), "ZR_wt_frac": rng.uniform(.02, .3), "TD_frac": rng.uniform(.6, 1.0), "B10_wt_frac": rng.uniform(.1, .95)}[key], rng.choice([2, 4, 8])))
                else:
                    vals.append("")
            if any(v != "" for v in vals):
                mm[key] = vals
    if rng.random() < .4:
        byc = {}
        for k, bn in enumerate(a["blocks"]):
            if mats[k] is None or rng.random() < .5:
                continue
            cname = next(c["name"] for c in spec["blocks"][bn]["components"] if c["material"] == mats[k])
            key = rng.choice(ACCEPTED_MODS[mats[k]])
            vals = byc.setdefault(cname, {}).setdefault(key, [""] * nb_)
            vals[k] = round({"U235_wt_frac": rng.uniform(.002, .95), "ZR_wt_frac": rng.uniform(.02, .3), "TD_frac": rng.uniform(.6, 1.0), "B10_wt_frac": rng.uniform(.1, .95)}[key], 5)
        # a by-component entry is only legal if the named component exists in every block where the value is non-empty: true by construction;
        # armi also demands the component name exists in a block whenever its (non-empty) dict reaches that block
        byc = {c: m for c, m in byc.items() if all(_comp_in_block_where_set(spec, a, c, m))}
        if byc:
            mm["by component"] = byc
    if rng.random() < .3:
        add_blend(rng, spec, a, mm, mats)
    if mm:
        a["material modifications"] = mm


def feed_isotopics(rng, spec):
    """Two heavy-metal feed vectors (mass fractions of isotopes, each summing to one) as custom isotopics entries."""
    names = []
    for pool in (["U235", "U238", "U234"], ["PU239", "PU240", "U238", "U235"]):
        nm = "feed%d" % (len(spec["custom isotopics"]) + 1)
        sel = rng.sample(pool, rng.randint(2, len(pool)))
        vals = [rng.uniform(.05, 1.0) for _ in sel]
        tot = sum(vals)
        fr = [round(v / tot, 8) for v in vals]
        fr[-1] = round(1.0 - sum(fr[:-1]), 10)
        iso = {"input format": "mass fractions"}
        iso.update(dict(zip(sel, fr)))
        spec["custom isotopics"][nm] = iso
        names.append(nm)
    return names


def add_blend(rng, spec, a, mm, mats, only_index=None):
    """class1/class2 blending (FuelMaterial) on blocks whose fuel is UZr or UO2."""
    idx = [k for k, m in enumerate(mats) if m in BLEND_MATS and (only_index is None or k == only_index)]
    if not idx:
        return False
    if only_index is None:
        idx = [k for k in idx if rng.random() < .6] or idx[:1]
    f1, f2 = feed_isotopics(rng, spec)
    n = len(a["blocks"])
    for key in BLEND_KEYS:
        mm.setdefault(key, [""] * n)
    for k in idx:
        mm["class1_wt_frac"][k] = round(rng.uniform(.05, .95), 4)
        mm["class1_custom_isotopics"][k] = f1
        mm["class2_custom_isotopics"][k] = f2
    return True


def shared_isotopics_scenario(rng, spec):
    """One named custom isotopic shared by several users in construction order (assembly designs in file order, blocks bottom-up):
    an EARLIER user that also receives a material modification (ZR_wt_frac / U235_wt_frac / class1-class2 blending on a UZr fuel
    carrying `isotopics:`), and a LATER user of the same isotopic without any modification, which must come out exactly as the
    isotopics text says whatever was built before it."""
    designs = list(spec["assemblies"].items())
    a0 = designs[0][1]
    cand = [k for k, bn in enumerate(a0["blocks"]) if spec["blocks"][bn]["components"][0]["name"] == "fuel"]
    if not cand:
        return
    k0 = min(cand)
    bn = a0["blocks"][k0]
    if len(designs) >= 2:
        an1, a1 = designs[-1] if rng.random() < .6 else rng.choice(designs[1:])
        k1 = rng.randrange(len(a1["blocks"]))
    else:
        an1, a1 = designs[0]
        later = [k for k in range(len(a1["blocks"])) if k > k0]
        if not later:
            return
        k1 = rng.choice(later)
    fuel = spec["blocks"][bn]["components"][0]
    fuel["material"] = "UZr"
    # the shared vector
    sel = ["ZR", "U235", "U238"] + rng.sample(["PU239", "U234", "PU240"], rng.randint(0, 2))
    vals = [rng.uniform(.05, .2)] + [rng.uniform(.05, 1.0) for _ in sel[1:]]
    tot = sum(vals)
    fr = [round(v / tot, 8) for v in vals]
    fr[-1] = round(1.0 - sum(fr[:-1]), 10)
    iso = {"input format": "mass fractions"}
    if rng.random() < .3:
        iso["density"] = round(rng.uniform(8.0, 17.0), 4)
    iso.update(dict(zip(sel, fr)))
    nm = "shared%d" % (len(spec["custom isotopics"]) + 1)
    spec["custom isotopics"][nm] = iso
    fuel["isotopics"] = nm
    if rng.random() < .4:  # one more (unmodified-material) user of the same vector: a structural component of another block
        others = [c for b2, bs in spec["blocks"].items() if b2 != bn for c in bs["components"] if c["material"] in ("HT9", "Zr", "Inconel600") and not c.get("isotopics")]
        if others:
            rng.choice(others)["isotopics"] = nm
    # the earlier user is modified at (a0, k0)
    mm = a0.setdefault("material modifications", {})
    n0 = len(a0["blocks"])
    how = rng.choice(["zr", "u235", "both", "by-component", "blend"])
    if how == "blend":
        mats = [None] * n0
        mats[k0] = "UZr"
        add_blend(rng, spec, a0, mm, mats, only_index=k0)
    elif how == "by-component":
        mm.setdefault("by component", {}).setdefault("fuel", {}).setdefault("ZR_wt_frac", [""] * n0)[k0] = round(rng.uniform(.02, .3), 4)
    else:
        if how in ("zr", "both"):
            mm.setdefault("ZR_wt_frac", [""] * n0)[k0] = round(rng.uniform(.02, .3), 4)
        if how in ("u235", "both"):
            mm.setdefault("U235_wt_frac", [""] * n0)[k0] = round(rng.uniform(.01, .9), 4)
    # the later user is the same block design, with no modification reaching it
    a1["blocks"][k1] = bn
    mm1 = a1.get("material modifications") or {}
    for key, vals_ in mm1.items():
        if key == "by component":
            for mods in vals_.values():
                for lst in mods.values():
                    lst[k1] = ""
        else:
            vals_[k1] = ""
    # entries that no longer fit the blocks they address are dropped (a by-component entry must name a component of its block)
    if mm1.get("by component"):
        mm1["by component"] = {c: m for c, m in mm1["by component"].items() if all(_comp_in_block_where_set(spec, a1, c, m))}
        if not mm1["by component"]:
            del mm1["by component"]
    for ad in spec["assemblies"].values():  # the block design may be reused elsewhere: modifications reaching it there must stay legal for UZr
        mmx = ad.get("material modifications") or {}
        for k, b2 in enumerate(ad["blocks"]):
            if b2 == bn:
                for key in ("TD_frac", "B10_wt_frac"):
                    if key in mmx:
                        mmx[key][k] = ""
                for cname, mods in (mmx.get("by component") or {}).items():
                    for key in ("TD_frac", "B10_wt_frac"):
                        if key in mods:
                            mods[key][k] = ""
    spec["shared"] = {"name": nm, "block": bn, "earlier": [designs[0][0], k0], "later": [an1, k1], "how": how}


def _comp_in_block_where_set(spec, a, cname, mods):
    for k, bn in enumerate(a["blocks"]):
        has = any(c["name"] == cname for c in spec["blocks"][bn]["components"])
        is_set = any(v[k] != "" for v in mods.values())
        yield has or not is_set


def mods_for(a, k, cname):
    """Independent reading of the material modifications reaching component `cname` of block index k:
    by-block values, overridden by by-component values; '' means 'not given'."""
    mm = a.get("material modifications") or {}
    out = {}
    for key, vals in mm.items():
        if key != "by component" and vals[k] != "":
            out[key] = vals[k]
    for key, vals in (mm.get("by component") or {}).get(cname, {}).items():
        if vals[k] != "":
            out[key] = vals[k]
    return out


def block_has_any_mod(a, k):
    mm = a.get("material modifications") or {}
    for key, vals in mm.items():
        if key == "by component":
            for mods in vals.values():
                if any(v[k] != "" for v in mods.values()):
                    return True
        elif vals[k] != "":
            return True
    return False


def add_custom_isotopics(rng, spec):
    """Custom isotopics on some components.  Never on a component whose material accepts a modification that reaches it."""
    if rng.random() > .5:
        return
    modded = set()  # (block name) that receive modifications somewhere
    for a in spec["assemblies"].values():
        for k, bn in enumerate(a["blocks"]):
            if block_has_any_mod(a, k):
                modded.add(bn)
    n = 0
    for bn, bs in spec["blocks"].items():
        for c in bs["components"]:
            if rng.random() > .2 or c["material"] == "Void" or c.get("isotopics"):
                continue
            if c["material"] in ACCEPTED_MODS and bn in modded:
                continue
            n += 1
            iname = "iso%d" % n
            fmtk = rng.choice(["mass fractions", "mass fractions", "number fractions", "number densities"])
            pool = rng.sample(ISO_ELEMENTS, rng.randint(1, 4)) + rng.sample(ISO_NUCLIDES, rng.randint(0, 3))
            if "U" in pool:
                pool = [p for p in pool if not (p.startswith("U2"))]
            if "B10" in pool and "B11" not in pool and rng.random() < .5:
                pool.append("B11")
            vals = [rng.uniform(.05, 1.0) for _ in pool]
            iso = {"input format": fmtk}
            custom_mat = rng.random() < .35 and c["shape"] != "DerivedShape"
            if fmtk == "number densities":
                for p, v in zip(pool, vals):
                    iso[p] = round(v * rng.choice([1e-4, 1e-3, 1e-2, 5e-2]), 10)
            else:
                s = sum(vals)
                fr = [round(v / s, 9) for v in vals]
                fr[-1] = round(1.0 - sum(fr[:-1]), 12)
                if fr[-1] <= 0:
                    continue
                for p, v in zip(pool, fr):
                    iso[p] = v
                if custom_mat or rng.random() < .5:
                    iso["density"] = round(rng.uniform(.5, 19.0), rng.choice([2, 5, 9]))
            if custom_mat and (fmtk == "number densities" or "density" in iso):
                c["material"] = "Custom"
            elif (fmtk == "number densities" or "density" in iso) and rng.random() < .5:
                c["Thot"] = c["Tinput"]  # the documented case: the density override is the density at the input temperature
            spec["custom isotopics"][iname] = iso
            c["isotopics"] = iname


def finish_flags(rng, spec):
    """nuclide flags = armi defaults + every name the used materials / custom isotopics hold; random expandTo subsets and burn toggles."""
    from armi.nucDirectory import elements, nuclideBases as nb
    from vlib import gen

    flags = gen.nuclide_flags_for(spec)
    for iso in spec.get("custom isotopics", {}).values():
        for k in iso:
            if k not in ("input format", "density"):
                flags.setdefault(k, {"burn": False, "xs": True})
    for name in list(flags):
        base = nb.byName[name]
        if isinstance(base, nb.NaturalNuclideBase) and rng.random() < .2:
            nat = [n.name for n in elements.bySymbol[name].getNaturalIsotopics()]
            if len(nat) >= 2:
                sub = sorted(rng.sample(nat, rng.randint(1, len(nat))), key=nat.index)
                flags[name] = dict(flags[name], expandTo=sub)
    if "B10" in flags and "B11" in flags and rng.random() < .2:  # the burn chain needs both
        flags["B10"] = dict(flags["B10"], burn=True)
        flags["B11"] = dict(flags["B11"], burn=True)
    spec["nuclide flags"] = flags


# =====================================================================================================================
# 3. independent reading of a spec: flags, expansion, composition
# =====================================================================================================================
DEFAULT_EXPANSION = {"C": None, "HE": ["HE4"], "O": ["O16"], "W": ["W182", "W183", "W184", "W186"]}  # documented defaults, xsKernel MC2v3


def words_to_flags(text, strict):
    """Flags from a name: each blank-separated word that is a flag name (digits ignored) contributes that flag."""
    from armi.reactor.flags import Flags

    out = Flags(0)
    for word in text.upper().split():
        try:
            out |= Flags[word]
            continue
        except KeyError:
            pass
        bare = "".join(ch for ch in word if not ch.isdigit())
        if not bare:
            continue
        try:
            out |= Flags[bare]
        except KeyError:
            if strict:
                raise
    return out


class Reading:
    """Everything the reference needs that depends on the whole document (nuclide flags, custom isotopics)."""

    def __init__(self, spec):
        from armi.nucDirectory import nuclideBases as nb
        from armi.utils import units

        self.spec = spec
        self.nb = nb
        self.K = units.MOLES_PER_CC_TO_ATOMS_PER_BARN_CM
        self.flags = spec["nuclide flags"]
        self.active = set()
        for name, fl in self.flags.items():
            if fl.get("burn"):
                self.active.update(self.expand_name(name))
        self._matcache = {}

    def A(self, name):
        return self.nb.byName[name].weight

    def expansion_for(self, name):
        """None: stays as written; else list of isotope names the element becomes."""
        base = self.nb.byName[name]
        if not isinstance(base, self.nb.NaturalNuclideBase):
            return None
        fl = self.flags.get(name)
        if fl is None:
            return None
        if fl.get("expandTo"):
            return list(fl["expandTo"])
        if name in DEFAULT_EXPANSION:
            return DEFAULT_EXPANSION[name]
        return [n.name for n in base.element.getNaturalIsotopics()]

    def expand_name(self, name):
        sub = self.expansion_for(name)
        return [name] if sub is None else sub

    def expand(self, w):
        """Elemental mass fractions -> isotopes: the element's mass is shared in proportion to abundance x atomic weight over the
        chosen isotopes (a subset is scaled up uniformly so the element's mass fraction is kept)."""
        out = {}
        for name, v in w.items():
            sub = self.expansion_for(name)
            if sub is None:
                out[name] = out.get(name, 0.0) + v
                continue
            shares = {n: self.nb.byName[n].abundance * self.nb.byName[n].weight for n in sub}
            tot = sum(shares.values())
            for n, s in shares.items():
                out[n] = out.get(n, 0.0) + v * s / tot
        return out

    def custom(self, iname):
        """Custom isotopics entry -> (mass fractions as written (elements not yet expanded), density or None), from the three formats."""
        iso = self.spec["custom isotopics"][iname]
        ent = {k: v for k, v in iso.items() if k not in ("input format", "density")}
        f = iso["input format"]
        if f == "mass fractions":
            return dict(ent), iso.get("density")
        if f == "number fractions":
            tot = sum(x * self.A(n) for n, x in ent.items())
            return {n: x * self.A(n) / tot for n, x in ent.items()}, iso.get("density")
        m = {n: N * self.A(n) / self.K for n, N in ent.items()}  # g/cc per nuclide
        rho = sum(m.values())
        return {n: v / rho for n, v in m.items()}, rho

    def material_reference(self, matname, mods):
        """Fresh instance of the material class (data), with the modifications the document gives this component applied by the
        harness through the material's own public entry point. Returns (instance, consistent?)."""
        from armi import materials

        key = (matname, tuple(sorted((k, str(v)) for k, v in mods.items())))
        if key not in self._matcache:
            m = materials.resolveMaterialClassByName(matname)()
            if mods:
                kw = dict(mods)
                if "class1_wt_frac" in kw:
                    kw["customIsotopics"] = {n: self.custom(n)[0] for n in self.spec["custom isotopics"]}
                m.applyInputParams(**kw)
            self._matcache[key] = m
        return self._matcache[key]

    def heavy(self, name):
        return self.nb.byName[name].isHeavyMetal()


def modified_massfracs(matname, mods, default_w, A):
    """Closed forms for what a modification means, written from the modification's definition (not from the material code):
    UZr: ZR_wt_frac = zirconium mass fraction (default 0.1), U235_wt_frac = U235 mass / uranium mass (default 0.1), rest U238.
    UO2 / B4C enrichment: mass fraction of the enriched isotope within its element, atoms of every element conserved
    (stoichiometry unchanged).  TD_frac: composition unchanged."""
    if matname == "UZr":
        zr = mods.get("ZR_wt_frac", 0.1)
        e = mods.get("U235_wt_frac", 0.1)
        return {"ZR": zr, "U235": e * (1 - zr), "U238": (1 - e) * (1 - zr)}
    if matname == "UO2" and "U235_wt_frac" in mods:
        return _enrich(default_w, "U235", ["U235", "U238"], mods["U235_wt_frac"], A)
    if matname == "B4C" and "B10_wt_frac" in mods:
        return _enrich(default_w, "B10", ["B10", "B11"], mods["B10_wt_frac"], A)
    return dict(default_w)


def _enrich(w, iso, family, e, A):
    """Keep the number of atoms of the element (sum over `family`) and of every other nuclide; make mass(iso)/mass(element) = e."""
    atoms = sum(w[n] / A(n) for n in family)
    other = [n for n in family if n != iso][0]
    mel = atoms / (e / A(iso) + (1 - e) / A(other))  # element mass carrying the same number of atoms
    out = dict(w)
    out[iso] = e * mel
    out[other] = (1 - e) * mel
    tot = sum(out.values())
    return {n: v / tot for n, v in out.items()}


def reference_composition(rd, c, mods, block_has_mods, rec):
    """-> dict(ctx, w (expanded mass fractions) or None, rho or None, skip_rho reason, absolute N or None)."""
    mat = c["material"]
    Thot, Tin = c["Thot"], c["Tinput"]
    relevant = {k: v for k, v in mods.items() if k in ACCEPTED_MODS.get(mat, ())}
    blend = None
    if mat in BLEND_MATS and mods.get("class1_wt_frac"):
        blend = {k: mods[k] for k in BLEND_KEYS}
    res = {"ctx": "default", "w": None, "rho": None, "skip_rho": None, "N": None}
    if c.get("isotopics") and mat in ACCEPTED_MODS and block_has_mods:
        # custom isotopics AND a material modification on one component: the code applies the isotopics first and lets the
        # modification "have the final word", but what the combination means is not documented -> its composition is not judged
        res["ctx"] = "custom-isotopics+modification"
        res["unjudged"] = True
        return res
    if mat == "Void":
        res.update(ctx="void", w={}, rho=0.0)
        return res
    iname = c.get("isotopics")
    if mat == "Custom":
        w_raw, rho_c = rd.custom(iname)
        res.update(ctx="custom-isotopics/%s/Custom" % rd.spec["custom isotopics"][iname]["input format"].replace(" ", "-"), w=rd.expand(w_raw), rho=rho_c)
        return res
    fresh = rd.material_reference(mat, {})
    default_w = dict(fresh.massFrac)
    if iname:
        w_raw, rho_c = rd.custom(iname)
        fmtk = rd.spec["custom isotopics"][iname]["input format"].replace(" ", "-")
        res["w"] = rd.expand(w_raw)
        if rho_c is None:
            res["ctx"] = "custom-isotopics/%s/library-density" % fmtk
            ref = fresh
        else:
            res["ctx"] = "custom-isotopics/%s/custom-density" % fmtk
            if Thot == Tin:
                res["rho"] = rho_c  # documented: the density is the one at the input temperature
            else:
                res["skip_rho"] = "custom density on a library material with Thot != Tinput (thermal scaling of the override is not part of the documented semantics judged here)"
            return res
    else:
        if blend:
            # FuelMaterial class1/class2 blending (docstring of densityTools.applyIsotopicsMix): the heavy-metal share of the material is
            # kept and redistributed as c1*feed1 + (1-c1)*feed2; everything that is not heavy metal stays
            res["ctx"] = "matmod-blend/%s%s" % (mat, ("+" + "+".join(sorted(relevant))) if relevant else "")
            w = modified_massfracs(mat, relevant, default_w, rd.A)
            tot = sum(w.values())
            hm = sum(v for n, v in w.items() if rd.heavy(n)) / tot
            f1, f2 = rd.custom(blend["class1_custom_isotopics"])[0], rd.custom(blend["class2_custom_isotopics"])[0]
            c1 = blend["class1_wt_frac"]
            for n in set(f1) | set(f2) | set(w):
                if rd.heavy(n):
                    w[n] = hm * (c1 * f1.get(n, 0.0) + (1 - c1) * f2.get(n, 0.0))
            res["w"] = rd.expand(w)
            ref = rd.material_reference(mat, dict(relevant, **blend))
        elif relevant:
            res["ctx"] = "matmod/%s/%s" % (mat, "+".join(sorted(relevant)))
            res["w"] = rd.expand(modified_massfracs(mat, relevant, default_w, rd.A))
            ref = rd.material_reference(mat, relevant)
        elif block_has_mods and mat == "UZr":
            res["ctx"] = "matmod/UZr/defaults"
            res["w"] = rd.expand(modified_massfracs(mat, {}, default_w, rd.A))
            ref = fresh
        else:
            res["w"] = rd.expand(default_w)
            ref = fresh
    # density at the hot temperature; only where the material library is self-consistent about it
    try:
        rho = ref.density(Tc=Thot)
        pseudo = ref.pseudoDensity(Tc=Thot)
        dll = ref.linearExpansionPercent(Tc=Thot)
        if abs(pseudo / (1.0 + dll / 100.0) - rho) <= TOLERANCES["material_consistency_rel"] * abs(rho):
            res["rho"] = rho
        else:
            # the library's density(T) and pseudoDensity(T) disagree (C19/C03 matter, e.g. UO2 by 0.4 %): fall back to the law the
            # Component docstring states (2-D pseudo density, then the axial factor), still evaluated on the harness's own instance
            res["rho"] = pseudo / (1.0 + dll / 100.0)
            res["fallback"] = mat
    except Exception as e:  # a property outside its validity range etc.: the material is data here
        res["skip_rho"] = "material %s cannot report density at Thot: %s" % (mat, type(e).__name__)
    return res


# =====================================================================================================================
# 4. build + compare
# =====================================================================================================================
def build(spec, text=None):
    """armi sees only the text. Returns (reactor, blueprints, text)."""
    from armi import settings
    from armi.reactor import blueprints, reactors
    from vlib.env import quiet

    text = text if text is not None else render(spec)
    cs = settings.Settings()
    if spec.get("settings"):
        cs = cs.modified(newSettings=spec["settings"])
    with quiet():
        bp = blueprints.Blueprints.load(io.StringIO(text))
        bp._verif_snapshot = snapshot_inputs(bp)
        r = reactors.factory(cs, bp)
    return r, bp, text


def _plain(v):
    while hasattr(v, "value") and type(v).__name__ == "ComponentDimension":
        v = v.value
    if isinstance(v, dict):
        return {str(k): _plain(x) for k, x in v.items()}
    if isinstance(v, (list, tuple)):
        return [_plain(x) for x in v]
    return v


def snapshot_inputs(bp):
    """What the document said, as parsed: custom isotopics (entries, mass fractions, density), assembly designs (lists and
    modifications), component designs (every attribute).  Construction must leave these alone."""
    out = {"custom-isotopics": {}, "assembly-design": {}, "component-design": {}}
    for name, ci in (bp.customIsotopics.items() if bp.customIsotopics else []):
        out["custom-isotopics"][name] = {"entries": dict(ci.items()), "massFracs": dict(ci.massFracs), "density": ci.density, "format": ci.inputFormat}
    for a in bp.assemDesigns:
        mm = a.materialModifications
        out["assembly-design"][a.name] = {"specifier": a.specifier, "height": list(a.height), "xs": list(a.xsTypes), "mesh": list(a.axialMeshPoints), "blocks": [b.name for b in a.blocks],
                                          "mods": {k: list(v) for k, v in mm.items()}, "by-component": {c: {k: list(v) for k, v in m.items()} for c, m in mm.byComponent.items()}}
    seen = set()
    for a in bp.assemDesigns:
        for bd in a.blocks:
            if id(bd) in seen:
                continue
            seen.add(id(bd))
            for cd in bd:
                out["component-design"]["%s/%s" % (bd.name, cd.name)] = {at.name: _plain(at.get_value(cd)) for at in cd.attributes}
    return out


def check_inputs_unchanged(rec, spec, bp, text):
    before = bp._verif_snapshot
    after = snapshot_inputs(bp)
    rec.hit("inputs-unchanged")
    for section in ("custom-isotopics", "assembly-design", "component-design"):
        d = first_difference(before[section], after[section], section)
        if d:
            rec.violation("blueprint-inputs-mutated/" + section, "building the reactor changed the parsed blueprint input: %s" % d, doc_witness(spec, text))


def design_compositions(bp):
    """design name -> per block, per component name: number densities of the assemblies the blueprints built (bp.assemblies)."""
    out = {}
    for name, a in bp.assemblies.items():
        out[name] = [{c.name: sorted((n, float(v)) for n, v in c.p.numberDensities.items()) for c in b} for b in a]
    return out


def reordered(rng, spec):
    """The same designs in another construction order: assemblies reversed in the file (when the axial meshes allow any design to be
    the reference) or the last design built alone.  Returns (spec2, how)."""
    designs = list(spec["assemblies"].items())
    same_mesh = all(a["height"] == designs[0][1]["height"] for _, a in designs)
    if len(designs) < 2:
        return None, None
    spec2 = dict(spec)
    if (same_mesh or spec.get("settings", {}).get("detailedAxialExpansion")) and rng.random() < .7:
        spec2["assemblies"] = dict(reversed(designs))
        return spec2, "reversed"
    keep = spec["shared"]["later"][0] if spec.get("shared") else designs[-1][0]
    spec2["assemblies"] = {keep: spec["assemblies"][keep]}
    sp = spec["assemblies"][keep]["specifier"]
    grids = dict(spec["grids"])
    gname = spec["systems"]["core"]["grid name"]
    grids[gname] = dict(grids[gname], contents={k: sp for k in grids[gname]["contents"]})
    spec2["grids"] = grids
    return spec2, "alone"


def close(a, b, rel, absol=0.0):
    return abs(a - b) <= rel * max(abs(a), abs(b)) + absol


def doc_witness(spec, text, **kw):
    w = {"yaml": text if len(text) < 6000 else text[:6000] + "\n...[truncated]"}
    w.update(kw)
    return w


# ---------------------------------------------------------------------------------------------- geometry of the built grids
# what the generator's symmetry strings mean in the vocabulary of armi/reactor/geometry.py: (domain, boundary, through centre assembly)
SYMMETRY_MEANING = {
    "full": ("full", "", False),
    "third periodic": ("third", "periodic", False),
    "quarter reflective": ("quarter", "reflective", False),
    "quarter reflective through center assembly": ("quarter", "reflective", True),
    "quarter periodic": ("quarter", "periodic", False),
    "eighth periodic": ("eighth", "periodic", False),
}
GEOM_TYPE = {"hex": "hex", "hex_corners_up": "hex", "cartesian": "cartesian", "thetarz": "thetarz"}


def hex_centre(i, j, pitch, corners_up):
    """Centre of hexagon (i, j), read off the two index pictures in the HexGrid docstring: flats up - (1,0) is the upper right
    neighbour, (0,1) straight above; corners up - (1,0) upper right, (0,1) upper left, (1,-1) straight to the right."""
    if corners_up:
        return (pitch * (i - j) / 2.0, pitch * SQ3 / 2.0 * (i + j))
    return (pitch * SQ3 / 2.0 * i, pitch * (i / 2.0 + j))


def _xy(v):
    return (float(v[0]), float(v[1]))


def _near(a, b, scale):
    return abs(a[0] - b[0]) <= TOLERANCES["coordinate_rel"] * scale and abs(a[1] - b[1]) <= TOLERANCES["coordinate_rel"] * scale


def cart_offset_expectation(g):
    """Where the centre of cell (0,0) of a Cartesian grid lies, per the CartesianGrid docstring: 'through center' (odd-by-odd) -> at the
    origin; not through centre (even-by-even) -> offset by half a cell.  Returns True (through centre), False, or None when the document
    does not decide it (a full map drawn with padding, or neither odd-by-odd nor even-by-even)."""
    dom, _, through = SYMMETRY_MEANING[g["symmetry"]]
    if dom != "full":
        return through
    if g.get("padded"):
        return None
    cells = list(g["contents"])
    nx = max(i for i, _ in cells) - min(i for i, _ in cells) + 1
    ny = max(j for _, j in cells) - min(j for _, j in cells) + 1
    if nx == ny and nx % 2 == 1:
        return True
    if nx % 2 == 0 and ny % 2 == 0:
        return False
    return None


def judge_grid_geometry(rec, V, g, grid, where, pitch=None):
    """Orientation, symmetry, geometry type, pitch / bounds and cell centres of a grid built from the grid section `g`.
    `pitch` = the pitch the document implies (hex: a number; Cartesian: (x, y)) or None when the document leaves it open.
    Returns the Cartesian offset of cell (0,0) that was observed (for the per-assembly centre check), or None."""
    from armi.reactor import grids

    K = lambda key, what, **kw: V("grid-geometry/%s/%s" % (where, key), "%s grid: %s" % (where, what), grid_section={k: v for k, v in g.items() if k not in ("contents",)}, **kw)
    rec.hit("geometry.grid")
    geom = g["geom"]
    # ---- class, geometry type
    expcls = {"hex": grids.HexGrid, "hex_corners_up": grids.HexGrid, "cartesian": grids.CartesianGrid, "thetarz": grids.ThetaRZGrid}[geom]
    if type(grid) is not expcls:
        K("class", "built as %s, geom %s asks for %s" % (type(grid).__name__, geom, expcls.__name__))
        return None
    if str(grid.geomType) != GEOM_TYPE[geom]:
        K("geom-type", "geomType %r, document says geom %s" % (str(grid.geomType), geom))
    # ---- symmetry
    if g.get("symmetry"):
        rec.hit("geometry.symmetry")
        dom, bnd, through = SYMMETRY_MEANING[g["symmetry"]]
        try:
            sym = grid.symmetry
            got = (str(sym.domain), str(sym.boundary) if sym.boundary.hasSymmetry() else "", bool(sym.isThroughCenterAssembly))
        except Exception as e:
            K("symmetry-unreadable", "symmetry of the built grid cannot be read: %s: %s" % (type(e).__name__, e))
            got = None
        if got is not None:
            if got[:2] != (dom, bnd):
                K("symmetry", "symmetry %r (domain %r, boundary %r), document says %r" % (str(sym), got[0], got[1], g["symmetry"]))
            elif geom == "cartesian":
                exp_through = cart_offset_expectation(g)
                if exp_through is not None and got[2] != exp_through:
                    K("symmetry-through-centre", "symmetry %r, but the document (%s, %s) %s through the centre assembly" % (str(sym), g["symmetry"], g.get("mapkind"), "goes" if exp_through else "does not go"))
            elif got[2]:
                K("symmetry-through-centre", "symmetry %r on a %s grid" % (str(sym), geom))
    # ---- hexagonal: orientation, pitch, centres of off-axis cells
    if geom in ("hex", "hex_corners_up"):
        cu = geom == "hex_corners_up"
        rec.hit("geometry.hex-orientation")
        if bool(grid.cornersUp) != cu:
            K("hex-orientation", "cornersUp is %r, document says geom %s" % (grid.cornersUp, geom))
        p = pitch
        if p is not None:
            rec.hit("geometry.pitch")
            if not close(float(grid.pitch), p, 1e-12):
                K("hex-pitch", "pitch %r, document implies %r" % (grid.pitch, p))
        else:
            p = float(grid.pitch)  # the document leaves the pitch open (unit grid): directions are still judged
        for cell in ((1, 0), (0, 1), (2, -1), (-1, 2)):
            rec.hit("geometry.cell-centre")
            got = _xy(grid.getCoordinates((cell[0], cell[1], 0)))
            exp = hex_centre(cell[0], cell[1], p, cu)
            if not _near(got, exp, p):
                K("hex-cell-centre", "centre of cell %r is %r, closed form for %s at pitch %r gives %r" % (cell, got, "corners up" if cu else "flats up", p, exp), cell=list(cell))
                break
        return None
    # ---- Cartesian: steps = lattice pitch, centre of (0,0) on the origin or half a cell off
    if geom == "cartesian":
        c00 = _xy(grid.getCoordinates((0, 0, 0)))
        c10 = _xy(grid.getCoordinates((1, 0, 0)))
        c01 = _xy(grid.getCoordinates((0, 1, 0)))
        if pitch is None:
            return None
        px, py = float(pitch[0]), float(pitch[1])
        scale = max(px, py)
        rec.hit("geometry.pitch")
        if not _near((c10[0] - c00[0], c10[1] - c00[1]), (px, 0.0), scale) or not _near((c01[0] - c00[0], c01[1] - c00[1]), (0.0, py), scale):
            K("cartesian-lattice-pitch", "steps of the grid are %r along i and %r along j, the lattice pitch is x %r, y %r" % ((c10[0] - c00[0], c10[1] - c00[1]), (c01[0] - c00[0], c01[1] - c00[1]), px, py))
            return None
        try:
            gp = grid.pitch
            if not (close(float(gp[0]), px, 1e-12) and close(float(gp[1]), py, 1e-12)):
                K("cartesian-lattice-pitch", "grid.pitch %r, the lattice pitch is x %r, y %r" % (gp, px, py))
        except Exception as e:
            K("cartesian-pitch-unreadable", "%s: %s" % (type(e).__name__, e))
        rec.hit("geometry.cell-centre")
        exp_through = cart_offset_expectation(g)
        allowed = {True: [(0.0, 0.0)], False: [(px / 2.0, py / 2.0)], None: [(0.0, 0.0), (px / 2.0, py / 2.0)]}[exp_through]
        if not any(_near(c00, a, scale) for a in allowed):
            K("cartesian-origin", "centre of cell (0,0) is %r, the document (%s) puts it at %r" % (c00, g["symmetry"], allowed))
            return None
        return c00
    # ---- theta-R-Z: the bounds are the ones written
    rec.hit("geometry.rz-bounds")
    try:
        tb, rb = grid.getBounds()[0], grid.getBounds()[1]
        tb, rb = [float(x) for x in tb], [float(x) for x in rb]
    except Exception as e:
        K("rz-bounds-unreadable", "%s: %s" % (type(e).__name__, e))
        return None
    if tb != [float(x) for x in g["grid bounds"]["theta"]]:
        K("rz-bounds/theta", "theta bounds %r, document %r" % (tb, g["grid bounds"]["theta"]))
    if rb != [float(x) for x in g["grid bounds"]["r"]]:
        K("rz-bounds/r", "radial bounds %r, document %r" % (rb, g["grid bounds"]["r"]))
    return None


def compare_reactor(rec, spec, r, text):
    """Judge the built reactor against the spec. Returns number of mapped locations."""
    rd = Reading(spec)
    V = lambda key, what, **kw: rec.violation(key, what, doc_witness(spec, text, **kw))
    core = r.core
    g = spec["grids"][spec["systems"]["core"]["grid name"]]
    by_spec = {a["specifier"]: (an, a) for an, a in spec["assemblies"].items()}
    # ---- geometry of the core grid
    if spec["family"] == "hex":
        core_pitch = float(g["lattice pitch"][0]) if g.get("lattice pitch") else float(spec["pitch"])
    elif spec["family"] == "cart":
        core_pitch = tuple(float(x) for x in (g.get("lattice pitch") or spec["pitch"]))
    else:
        core_pitch = None
    cart_c00 = None
    try:
        cart_c00 = judge_grid_geometry(rec, V, g, core.spatialGrid, "core", core_pitch)
        if str(core.geomType) != GEOM_TYPE[g["geom"]]:
            V("grid-geometry/core/geom-type", "core.geomType %r, document says geom %s" % (str(core.geomType), g["geom"]))
    except Exception as e:
        rec.crash("grid-geometry/core", e, doc_witness(spec, text))
    # ---- system
    o = spec["systems"]["core"]["origin"]
    rec.hit("system")
    try:
        xyz = tuple(float(x) for x in core.spatialLocator.getLocalCoordinates())
        if xyz != tuple(float(x) for x in o):
            V("system/origin", "core origin %r, document says %r" % (xyz, o))
    except Exception as e:
        rec.crash("system-origin", e, doc_witness(spec, text))
    if g.get("lattice pitch") and spec["family"] == "hex":
        rec.hit("grid-pitch")
        if float(core.spatialGrid.pitch) != float(g["lattice pitch"][0]) and not close(float(core.spatialGrid.pitch), float(g["lattice pitch"][0]), 1e-12):
            V("grid/lattice-pitch", "core grid pitch %r, document says %r" % (core.spatialGrid.pitch, g["lattice pitch"][0]))
    elif spec["family"] == "hex":
        rec.hit("grid-pitch")
        if not close(float(core.spatialGrid.pitch), spec["pitch"], 1e-12):
            V("grid/pitch-from-blocks", "core grid pitch %r, blocks' outer flat-to-flat %r" % (core.spatialGrid.pitch, spec["pitch"]))
    # ---- placement
    found = {}
    for a in core:
        idx = tuple(int(x) for x in a.spatialLocator.getCompleteIndices())[:2]
        if idx in found:
            V("placement/two-assemblies-one-location", "two assemblies at %r" % (idx,))
        found[idx] = a
    want = g["contents"]
    for idx in want:
        rec.hit("placement")
        if idx not in found:
            V("placement/missing-location/%s/%s" % (g["mapkind"], g["form"]), "no assembly at %r (document: %s)" % (idx, want[idx]), location=list(idx))
    for idx in found:
        if idx not in want:
            V("placement/extra-location/%s/%s" % (g["mapkind"], g["form"]), "assembly %s at %r which the map does not name" % (found[idx].getType(), idx), location=list(idx))
    judged_designs = set()
    for idx, sp in want.items():
        a = found.get(idx)
        if a is None:
            continue
        aname, ad = by_spec[sp]
        if a.getType() != aname:
            V("placement/wrong-design/%s/%s" % (g["mapkind"], g["form"]), "at %r: assembly of design %r, document says %r (specifier %s)" % (idx, a.getType(), aname, sp), location=list(idx))
            continue
        # ---- where the assembly sits in space: closed form from the indices and the pitch the document implies
        exp_xy = None
        if spec["family"] == "hex":
            exp_xy, scale = hex_centre(idx[0], idx[1], core_pitch, g["geom"] == "hex_corners_up"), core_pitch
        elif spec["family"] == "cart" and cart_c00 is not None:
            exp_xy, scale = (cart_c00[0] + core_pitch[0] * idx[0], cart_c00[1] + core_pitch[1] * idx[1]), max(core_pitch)
        if exp_xy is not None:
            rec.hit("geometry.assembly-centre")
            try:
                got_xy = _xy(a.spatialLocator.getLocalCoordinates())
                if not _near(got_xy, exp_xy, scale):
                    V("grid-geometry/core/assembly-centre/%s" % g["geom"], "assembly at %r is centred at %r, indices and pitch %r give %r" % (idx, got_xy, core_pitch, exp_xy), location=list(idx))
            except Exception as e:
                rec.crash("grid-geometry/assembly-centre", e, doc_witness(spec, text, location=list(idx)))
        # full structural comparison at every location of a small core (<= 30 assemblies); in larger cores once per design and at about
        # one in five of the other locations; cheap identity checks everywhere
        deep = len(want) <= DEEP_ALL_UP_TO or sp not in judged_designs or (idx[0] * 7 + idx[1] * 13) % 5 == 0
        judged_designs.add(sp)
        compare_assembly(rec, rd, spec, text, a, aname, ad, idx, deep)
    return len(want)


def compare_assembly(rec, rd, spec, text, a, aname, ad, idx, deep):
    from armi.reactor.flags import Flags

    V = lambda key, what, **kw: rec.violation(key, what, doc_witness(spec, text, location=list(idx), design=aname, **kw))
    rec.hit("assembly")
    exp_flags = words_to_flags(ad["flags"], True) if ad.get("flags") else words_to_flags(aname, False)
    rec.hit("flags")
    if a.p.flags != exp_flags:
        V("assembly/flags/%s" % ("explicit" if ad.get("flags") else "from-name"), "assembly flags %r, expected %r" % (a.p.flags, exp_flags))
    if a.p.RadMesh != (ad.get("radial mesh points") or 1) or a.p.AziMesh != (ad.get("azimuthal mesh points") or 1):
        V("assembly/mesh-points", "RadMesh/AziMesh %r/%r, document %r/%r" % (a.p.RadMesh, a.p.AziMesh, ad.get("radial mesh points"), ad.get("azimuthal mesh points")))
    blocks = list(a)
    if len(blocks) != len(ad["blocks"]):
        V("assembly/block-count", "%d blocks, document lists %d" % (len(blocks), len(ad["blocks"])))
        return
    z = 0.0
    for k, (b, bn) in enumerate(zip(blocks, ad["blocks"])):
        bs = spec["blocks"][bn]
        rec.hit("block")
        W = lambda key, what, **kw: V(key, what, block_index=k, block=bn, **kw)
        if b.getType() != bn:
            W("block/order-or-type", "block %d is of design %r, document says %r" % (k, b.getType(), bn))
            continue
        if b.p.height != ad["height"][k]:
            W("block/height", "block %d height %r, document %r (heights %r)" % (k, b.p.height, ad["height"][k], ad["height"]))
        if b.p.xsType != ad["xs types"][k]:
            W("block/xs-type", "block %d xsType %r, document %r (xs types %r)" % (k, b.p.xsType, ad["xs types"][k], ad["xs types"]))
        if b.p.axMesh != ad["axial mesh points"][k]:
            W("block/axial-mesh-points", "block %d axMesh %r, document %r" % (k, b.p.axMesh, ad["axial mesh points"][k]))
        ztop = z + ad["height"][k]
        if not close(b.p.zbottom, z, TOLERANCES["z_rel"], 1e-12) or not close(b.p.ztop, ztop, TOLERANCES["z_rel"], 1e-12):
            W("block/z-bounds", "block %d spans [%r, %r], heights below it sum to [%r, %r]" % (k, b.p.zbottom, b.p.ztop, z, ztop))
        z = ztop
        rec.hit("flags")
        bf = words_to_flags(bs["flags"], True) if bs.get("flags") else words_to_flags(bn, False)
        if b.p.flags != bf:
            W("block/flags/%s" % ("explicit" if bs.get("flags") else "from-name"), "block flags %r, expected %r" % (b.p.flags, bf))
        expcls = {"hex": "HexBlock", "cart": "CartesianBlock", "rz": "ThRZBlock"}[spec["family"]]
        if type(b).__name__ != expcls:
            W("block/class", "block class %s, expected %s" % (type(b).__name__, expcls))
        if deep:
            if bs.get("grid name"):
                # the block's own grid is the one its `grid name` section describes (a block without one gets a grid armi infers
                # from the pin count - not described by the document, not judged)
                pg = spec["grids"][bs["grid name"]]
                try:
                    if b.spatialGrid is None:
                        W("grid-geometry/pin-lattice/missing", "block with grid name %r has no spatial grid" % bs["grid name"])
                    else:
                        lp = pg.get("lattice pitch")
                        judge_grid_geometry(rec, W, pg, b.spatialGrid, "pin-lattice", None if not lp else (float(lp[0]) if pg["geom"].startswith("hex") else (float(lp[0]), float(lp[1]))))
                except Exception as e:
                    rec.crash("grid-geometry/pin-lattice", e, doc_witness(spec, text, block=bn))
            compare_components(rec, rd, spec, text, b, bs, bn, ad, k, W)


def _is_link(v):
    return isinstance(v, str)


NON_DIM_KEYS = {"name", "shape", "material", "Tinput", "Thot", "isotopics", "flags", "latticeIDs", "mergeWith"}


def compare_components(rec, rd, spec, text, b, bs, bn, ad, k, W):
    from armi.reactor.components import component as compmod
    from armi.reactor.flags import Flags

    comps = list(b)
    # reactors.factory sorts every composite (setting sortReactor, default on: components by bounding size), so the order of the
    # components inside a block is not the document's; they are matched by name
    if sorted(c.name for c in comps) != sorted(c["name"] for c in bs["components"]):
        W("component/names", "components %r, document %r" % ([c.name for c in comps], [c["name"] for c in bs["components"]]))
        return
    byname = {c.name: c for c in comps}
    comps = [byname[c["name"]] for c in bs["components"]]
    grid = spec["grids"].get(bs.get("grid name")) if bs.get("grid name") else None
    anymods = block_has_any_mod(ad, k)
    for c, cs_ in zip(comps, bs["components"]):
        rec.hit("component")
        X = lambda key, what, **kw: W(key, what, component=cs_["name"], **kw)
        if type(c).__name__ != cs_["shape"]:
            X("component/shape-class", "%s is a %s, document says %s" % (c.name, type(c).__name__, cs_["shape"]))
            continue
        if type(c.material).__name__ != cs_["material"]:
            X("component/material-class", "%s is made of %s, document says %s" % (c.name, type(c.material).__name__, cs_["material"]))
            continue
        if c.inputTemperatureInC != cs_["Tinput"]:
            X("component/Tinput", "%s Tinput %r, document %r" % (c.name, c.inputTemperatureInC, cs_["Tinput"]))
        if c.temperatureInC != cs_["Thot"]:
            X("component/Thot", "%s Thot %r, document %r" % (c.name, c.temperatureInC, cs_["Thot"]))
        if (c.p.customIsotopicsName or "") != (cs_.get("isotopics") or ""):
            X("component/isotopics-name", "%s customIsotopicsName %r, document %r" % (c.name, c.p.customIsotopicsName, cs_.get("isotopics")))
        # ---- dimensions (cold, as written) and links
        lat_ids = cs_.get("latticeIDs")
        lat_n = None
        if grid is not None and lat_ids:
            cells = sorted(cell for cell, v in grid["contents"].items() if v in lat_ids)
            lat_n = len(cells)
        for key, v in cs_.items():
            if key in NON_DIM_KEYS:
                continue
            if key == "mult" and lat_n:
                continue
            stored = c.p[key]
            if _is_link(v):
                rec.hit("link")
                tname, tdim = v.rsplit(".", 1)
                if not isinstance(stored, compmod._DimensionLink):
                    X("component/link-not-a-link", "%s.%s is %r, document links it to %s" % (c.name, key, stored, v), dimension=key)
                elif stored[0] is not byname.get(tname) or stored[1] != tdim:
                    X("component/link-target", "%s.%s links to %s.%s, document says %s" % (c.name, key, getattr(stored[0], "name", stored[0]), stored[1], v), dimension=key)
                else:
                    tv = bs_comp(bs, tname).get(tdim)
                    if tv is not None and not _is_link(tv) and not (tdim == "mult" and bs_comp(bs, tname).get("latticeIDs") and grid is not None):
                        if c.getDimension(key, cold=True) != tv:
                            X("component/link-value", "%s.%s resolves (cold) to %r, the target is written as %r" % (c.name, key, c.getDimension(key, cold=True), tv), dimension=key)
            else:
                rec.hit("dimension")
                if isinstance(stored, compmod._DimensionLink) or stored != v:
                    X("component/mult" if key == "mult" else "component/dimension", "%s.%s stored as %r, document %r" % (c.name, key, stored, v), dimension=key)
        if "mult" not in cs_ and lat_n is None and "mult" in c.DIMENSION_NAMES:
            rec.hit("dimension")
            if c.getDimension("mult") not in (1, 1.0, None):
                X("component/mult", "%s has no mult in the document, model has %r" % (c.name, c.getDimension("mult")), dimension="mult")
        # ---- cross-section area at the written (cold) dimensions against the elementary formula of the shape
        if cs_["shape"] != "DerivedShape":
            try:
                exp_area = closed_area(cs_["shape"], lambda key_: spec_cold_dim(bs, grid, cs_, key_), ad["height"][k])
            except _NotStated as e:
                exp_area = None
                rec.skip("area: %s" % e)
            if exp_area is not None:
                try:
                    got_area = float(c.getComponentArea(cold=True))
                except Exception as e:
                    got_area = None
                    rec.crash("component-area/%s" % cs_["shape"], e, doc_witness(spec, text, block=bn, component=cs_["name"]))
                if got_area is not None:
                    rec.hit("area")
                    rec.hit("area.%s" % cs_["shape"])
                    if not close(got_area, exp_area, TOLERANCES["area_rel"], 1e-14):
                        X("component/area/%s" % cs_["shape"], "%s (%s): getComponentArea(cold=True) is %r, the shape's formula on the written dimensions gives %r" % (c.name, cs_["shape"], got_area, exp_area), shape=cs_["shape"])
        # ---- pin lattice
        if lat_n is not None:
            rec.hit("pin-lattice")
            m = c.getDimension("mult")
            if lat_n and m != lat_n:
                X("component/pin-lattice-mult", "%s multiplicity %r, its lattice IDs %r occupy %d positions" % (c.name, m, lat_ids, lat_n))
            locs = locator_cells(c.spatialLocator) if lat_n else []
            if lat_n and locs != cells:
                X("component/pin-lattice-locations", "%s sits at %r, the lattice map puts its IDs at %r" % (c.name, locs, cells))
        # ---- flags
        rec.hit("flags")
        if cs_.get("flags"):
            ef = words_to_flags(cs_["flags"], True)
        else:
            ef = words_to_flags(cs_["name"], False)
        comp_ref = reference_composition(rd, cs_, mods_for(ad, k, cs_["name"]), anymods, rec)
        if comp_ref.get("unjudged") and not cs_.get("flags"):
            held = set(c.getNuclides())  # composition not judged: the depletable flag follows whatever it holds
            if any(n in rd.active for n in held):
                ef |= Flags.DEPLETABLE
        elif comp_ref["w"] is not None and not cs_.get("flags"):
            if any(n in rd.active for n in comp_ref["w"]):
                ef |= Flags.DEPLETABLE
        if c.p.flags != ef:
            X("component/flags/%s" % ("explicit" if cs_.get("flags") else "from-name"), "%s flags %r, expected %r" % (c.name, c.p.flags, ef))
        shared = spec.get("shared")
        if shared and cs_.get("isotopics") == shared["name"] and not comp_ref.get("unjudged"):
            rec.hit("shared-isotopics.unmodified-user")
        compare_composition(rec, rd, c, cs_, comp_ref, bool(ef & Flags.DEPLETABLE), X)


class _NotStated(Exception):
    pass


def spec_cold_dim(bs, grid, comp, key, _depth=0):
    """Cold value of a dimension as the document states it: a number as written; a link -> the written value of the target (followed);
    the multiplicity of a component placed on a pin lattice -> the number of lattice positions carrying its ids."""
    if _depth > 8 or not comp:
        raise _NotStated("link chain of %s does not end" % key)
    if key == "mult" and comp.get("latticeIDs") and grid is not None:
        n = sum(1 for v in grid["contents"].values() if v in comp["latticeIDs"])
        if n:
            return n
    v = comp.get(key)
    if v is None:
        raise _NotStated("%s of a %s not stated in the document" % (key, comp.get("shape")))
    if _is_link(v):
        tname, tdim = v.rsplit(".", 1)
        return spec_cold_dim(bs, grid, bs_comp(bs, tname), tdim, _depth + 1)
    return v


def closed_area(shape, d, block_height):
    """Cross-section area in cm2 (all `mult` copies) from the cold dimensions d(name), by elementary geometry; 3-D shapes: volume
    over the block height (the average over the height, as their docstrings say)."""
    pi = math.pi
    if shape == "UnshapedComponent":
        return d("area")
    m = d("mult")
    if shape == "Circle":
        return m * pi / 4.0 * (d("od") ** 2 - d("id") ** 2)
    if shape == "Hexagon":
        return m * SQ3 / 2.0 * (d("op") ** 2 - d("ip") ** 2)
    if shape == "Rectangle":
        return m * (d("lengthOuter") * d("widthOuter") - d("lengthInner") * d("widthInner"))
    if shape == "Square":
        return m * (d("widthOuter") ** 2 - d("widthInner") ** 2)
    if shape == "SolidRectangle":
        return m * d("lengthOuter") * d("widthOuter")
    if shape == "Triangle":
        return m * d("base") * d("height") / 2.0
    if shape == "Helix":  # a wire of annular section wound at diameter D with axial pitch P is sqrt((pi*D)^2+P^2)/P times longer than the axis
        return m * pi / 4.0 * (d("od") ** 2 - d("id") ** 2) * math.sqrt((pi * d("helixDiameter")) ** 2 + d("axialPitch") ** 2) / d("axialPitch")
    if shape == "HoledHexagon":
        return m * (SQ3 / 2.0 * d("op") ** 2 - d("nHoles") * pi / 4.0 * d("holeOD") ** 2)
    if shape == "HexHoledCircle":
        return m * (pi / 4.0 * d("od") ** 2 - SQ3 / 2.0 * d("holeOP") ** 2)
    if shape == "HoledRectangle":
        return m * (d("lengthOuter") * d("widthOuter") - pi / 4.0 * d("holeOD") ** 2)
    if shape == "HoledSquare":
        return m * (d("widthOuter") ** 2 - pi / 4.0 * d("holeOD") ** 2)
    if shape == "Sphere":
        return m * pi / 6.0 * (d("od") ** 3 - d("id") ** 3) / block_height
    if shape == "RadialSegment":
        return m * (d("outer_radius") ** 2 - d("inner_radius") ** 2) / 2.0 * (d("outer_theta") - d("inner_theta"))
    if shape == "DifferentialRadialSegment":
        ri = d("inner_radius")
        return m * ((ri + d("radius_differential")) ** 2 - ri ** 2) / 2.0 * d("azimuthal_differential")
    raise _NotStated("no elementary area formula for shape %s" % shape)


def locator_cells(loc):
    """Cells of a component's locator in its block grid (None if the component has no grid position at all)."""
    from armi.reactor import grids

    if isinstance(loc, grids.MultiIndexLocation):
        return sorted(tuple(int(x) for x in l.getCompleteIndices())[:2] for l in loc)
    if isinstance(loc, grids.IndexLocation):
        return [tuple(int(x) for x in loc.getCompleteIndices())[:2]]
    return None


def bs_comp(bs, name):
    for c in bs["components"]:
        if c["name"] == name:
            return c
    return {}


def compare_composition(rec, rd, c, cs_, ref, depletable, X):
    nd = {n: float(v) for n, v in c.p.numberDensities.items()}
    ctx = ref["ctx"]
    if ref.get("unjudged"):
        rec.skip("composition of a component carrying both custom isotopics and a material modification (combination not documented)")
        return
    if ctx.startswith("matmod"):
        rec.hit("matmod")
    if ctx.startswith("matmod-blend"):
        rec.hit("class-blend")
    if ctx.startswith("custom"):
        rec.hit("custom-isotopics")
    w = ref["w"]
    if w is None:
        rec.skip("composition: no reference for this component")
        return
    # nuclides the reference does not hold may only be present at zero density, and only in depletable components
    extra = [n for n, v in nd.items() if n not in w and v != 0.0]
    if extra:
        X("composition/unexpected-nuclide/%s" % ctx, "%s holds %r which the document's composition does not contain" % (c.name, extra[:5]), context=ctx)
        return
    if not depletable:
        ghost = [n for n in nd if n not in w]
        if ghost:
            X("composition/zero-density-keys-on-non-depletable/%s" % ctx, "%s (not depletable) got keys %r" % (c.name, ghost[:5]), context=ctx)
    if ctx == "void":
        rec.hit("density")
        if any(v != 0.0 for v in nd.values()):
            X("composition/void-has-atoms", "Void component %s holds atoms" % c.name)
        return
    mass = {n: nd.get(n, 0.0) * rd.A(n) / rd.K for n in w}
    tot = sum(mass.values())
    rec.hit("massfrac")
    if tot <= 0.0:
        if ref["rho"] is None or ref["rho"] > 0:
            X("composition/no-mass/%s" % ctx, "%s holds no mass, document composition %r" % (c.name, w), context=ctx)
        return
    for n, wv in w.items():
        if not close(mass[n] / tot, wv, TOLERANCES["massfrac_rel"], TOLERANCES["massfrac_abs"]):
            X("composition/massfrac/%s" % ctx, "%s: mass fraction of %s is %r, independently computed %r" % (c.name, n, mass[n] / tot, wv), context=ctx, nuclide=n,
              expected={k: v for k, v in sorted(w.items())}, observed={k: mass[k] / tot for k in sorted(mass)})
            break
    if ref["rho"] is None:
        rec.skip("density: " + (ref["skip_rho"] or "no reference"))
        return
    rec.hit("density")
    if ref.get("fallback"):
        rec.add("density reference by pseudoDensity/(1+dLL) because density(T) of the library disagrees: %s" % ref["fallback"])
    if not close(tot, ref["rho"], TOLERANCES["density_rel"]):
        X("composition/density/%s" % ctx, "%s: mass density from number densities %r g/cc, independently computed %r (Tinput %r, Thot %r)" % (c.name, tot, ref["rho"], cs_["Tinput"], cs_["Thot"]),
          context=ctx, observed_density=tot, expected_density=ref["rho"])


# ---------------------------------------------------------------------------------------------- observation for determinism
def observe(r):
    """Observational dump: everything a user can read from the model that construction decides."""
    out = []
    for s in r:
        try:
            kids = list(s)
        except Exception:
            kids = []
        srow = [type(s).__name__, getattr(s, "name", None), []]
        for a in kids:
            arow = [a.getType(), a.getName(), repr(a.p.flags), [int(x) for x in a.spatialLocator.getCompleteIndices()], []]
            for b in a:
                brow = [b.getType(), b.getName(), repr(b.p.flags), b.p.height, b.p.xsType, b.p.axMesh, b.p.zbottom, b.p.ztop, b.getVolume(), b.getMass(), []]
                for c in b:
                    dims = {}
                    for d in c.DIMENSION_NAMES:
                        v = c.p[d]
                        dims[d] = str(v) if isinstance(v, tuple) else v
                    brow[-1].append([c.name, type(c).__name__, type(c.material).__name__, repr(c.p.flags), c.inputTemperatureInC, c.temperatureInC, dims,
                                     sorted((n, float(v)) for n, v in c.p.numberDensities.items()), c.getVolume()])
                arow[-1].append(brow)
            srow[-1].append(arow)
        out.append(srow)
    return out


def first_difference(a, b, path="reactor"):
    if type(a) != type(b):
        return "%s: %r vs %r" % (path, a, b)
    if isinstance(a, (list, tuple)):
        if len(a) != len(b):
            return "%s: length %d vs %d" % (path, len(a), len(b))
        for i, (x, y) in enumerate(zip(a, b)):
            d = first_difference(x, y, "%s[%d]" % (path, i))
            if d:
                return d
        return None
    if isinstance(a, dict):
        if sorted(a) != sorted(b):
            return "%s: keys differ" % path
        for k_ in a:
            d = first_difference(a[k_], b[k_], "%s.%s" % (path, k_))
            if d:
                return d
        return None
    if a != b and not (a != a and b != b):
        return "%s: %r vs %r" % (path, a, b)
    return None


# ---------------------------------------------------------------------------------------------- shape probes
PROBE_SHAPES = ["Circle", "Hexagon", "Rectangle", "Square", "SolidRectangle", "Triangle", "HoledHexagon", "HexHoledCircle", "HoledRectangle", "HoledSquare", "Helix", "Sphere", "Cube",
                "UnshapedComponent", "UnshapedVolumetricComponent"]


def shape_probe_document(rng, shape):
    """A small hex core (one ring around the centre) of one or two designs whose blocks hold one or two components of class `shape`
    (and sometimes one of another class) next to derived coolant, duct and intercoolant: every shape class a blueprint can name is
    built from text at least a few times, whatever the main families draw."""
    pitch = round(rng.uniform(8, 18), 4)
    coolant = rng.choice(["Sodium", "Lead"])
    spec = {"blocks": {}, "assemblies": {}, "grids": {}, "custom isotopics": {}, "settings": {}, "family": "hex", "pitch": pitch, "probe": shape}
    heights = [round(rng.uniform(5, 40), 2) for _ in range(rng.randint(1, 3))]
    specs = []
    uniq = 0
    for d in range(rng.randint(1, 2)):
        bnames = []
        for k in range(len(heights)):
            uniq += 1
            bn = _name(rng, rng.choice(["shield", "reflector"]), uniq)
            shapes = [shape] * rng.randint(1, 2) + ([rng.choice(SHAPES_2D)] if rng.random() < .4 else [])
            spec["blocks"][bn] = shapes_block_spec(rng, pitch, coolant, hot=rng.random() < .8, shapes=shapes)
            bnames.append(bn)
        uniq += 1
        sp = "P%d" % d
        specs.append(sp)
        spec["assemblies"][_name(rng, "reflector", uniq)] = {"specifier": sp, "blocks": bnames, "height": list(heights), "axial mesh points": [rng.randint(1, 3) for _ in heights],
                                                            "xs types": [rng.choice(XS_TYPES) for _ in heights]}
    spec["grids"]["core"] = core_grid(rng, rng.choice(["hex-third", "hex-full", "hexcu-full"]), specs, R=1, holes=rng.choice([0.0, .2]))
    spec["systems"] = {"core": {"grid name": "core", "origin": (0.0, 0.0, 0.0)}}
    finish_flags(rng, spec)
    return spec


# ---------------------------------------------------------------------------------------------- Cartesian documents
def cart_block(rng, P, kind, coolant, uniq):
    """A pin cell bundle in a square can: [fuel|absorber pins, gap, clad], coolant (derived), can, outer coolant (defines the pitch)."""
    px, py = P
    square = px == py
    t = rng.uniform(.1, .3)
    inner = min(px, py) - 2 * t - .2
    n = rng.choice([1, 2, 3, 4, 5])
    cell = inner / n
    clad_od = cell * rng.uniform(.5, .85)
    clad_id = clad_od * rng.uniform(.8, .92)
    hot = rng.random() < .8
    Tc = rng.uniform(250, 320) if hot else 20.0
    Ts = rng.uniform(300, 400) if hot else 20.0
    Tf = rng.uniform(400, 900) if hot else 20.0
    smat = rng.choice(["Zr", "HT9", "Inconel600"])
    comps = []
    if kind == "fuel":
        fmat = rng.choice(["UO2", "UO2", "UZr"])
        comps.append({"name": "fuel", "shape": "Circle", "material": fmat, "Tinput": 20.0, "Thot": Tf, "id": 0.0, "od": clad_id * rng.uniform(.85, .97), "mult": n * n})
        comps.append({"name": "gap", "shape": "Circle", "material": "Void", "Tinput": Tc, "Thot": Tc, "id": "fuel.od", "od": "clad.id", "mult": "fuel.mult"})
        comps.append({"name": "clad", "shape": "Circle", "material": smat, "Tinput": 20.0, "Thot": Ts, "id": clad_id, "od": clad_od, "mult": "fuel.mult"})
    elif kind == "control":
        comps.append({"name": "control", "shape": "Circle", "material": "B4C", "Tinput": 20.0, "Thot": Ts, "id": 0.0, "od": clad_id * .9, "mult": n * n})
        comps.append({"name": "gap", "shape": "Circle", "material": "Void", "Tinput": Tc, "Thot": Tc, "id": "control.od", "od": "clad.id", "mult": "control.mult"})
        comps.append({"name": "clad", "shape": "Circle", "material": smat, "Tinput": 20.0, "Thot": Ts, "id": clad_id, "od": clad_od, "mult": "control.mult"})
    else:
        comps.append({"name": "reflector", "shape": rng.choice(["Circle", "Square", "HoledSquare", "HoledRectangle", "SolidRectangle", "Rectangle"]), "material": smat, "Tinput": 20.0, "Thot": Ts, "mult": n * n})
        shp = comps[-1]["shape"]
        if shp == "Circle":
            comps[-1].update(id=0.0, od=clad_od)
        elif shp == "Square":
            comps[-1].update(widthOuter=clad_od * .8, widthInner=0.0)
        elif shp == "HoledSquare":
            comps[-1].update(widthOuter=clad_od * .8, holeOD=clad_od * rng.uniform(.1, .6))
        else:
            comps[-1].update(lengthOuter=clad_od * rng.uniform(.5, .9), widthOuter=clad_od * rng.uniform(.5, .9))
            if shp == "HoledRectangle":
                comps[-1].update(holeOD=min(comps[-1]["lengthOuter"], comps[-1]["widthOuter"]) * rng.uniform(.1, .8))
            elif shp == "Rectangle":
                comps[-1].update(lengthInner=comps[-1]["lengthOuter"] * rng.uniform(0, .8), widthInner=comps[-1]["widthOuter"] * rng.uniform(0, .8))
        if shp in ("HoledSquare", "HoledRectangle") and rng.random() < .5:  # a rod in the hole, sized and counted through links
            comps.append({"name": "rod", "shape": "Circle", "material": rng.choice(["Zr", "HT9", "Inconel600"]), "Tinput": 20.0, "Thot": Ts, "id": 0.0, "od": "reflector.holeOD", "mult": "reflector.mult"})
    comps.append({"name": "coolant", "shape": "DerivedShape", "material": coolant, "Tinput": Tc, "Thot": Tc})
    if square:
        comps.append({"name": "duct", "shape": "Square", "material": smat, "Tinput": 20.0, "Thot": Ts, "widthOuter": px - .2, "widthInner": px - .2 - 2 * t, "mult": 1})
        comps.append({"name": "intercoolant", "shape": "Square", "material": coolant, "Tinput": Tc, "Thot": Tc, "widthOuter": px, "widthInner": "duct.widthOuter", "mult": 1})
    else:
        comps.append({"name": "duct", "shape": "Rectangle", "material": smat, "Tinput": 20.0, "Thot": Ts, "lengthOuter": px - .2, "lengthInner": px - .2 - 2 * t,
                      "widthOuter": py - .2, "widthInner": py - .2 - 2 * t, "mult": 1})
        comps.append({"name": "intercoolant", "shape": "Rectangle", "material": coolant, "Tinput": Tc, "Thot": Tc, "lengthOuter": px, "lengthInner": "duct.lengthOuter",
                      "widthOuter": py, "widthInner": "duct.widthOuter", "mult": 1})
    return {"components": comps, "pitch": P, "npins": n * n, "n": n, "cell": cell, "kind": kind}


def cart_document(rng, size=None):
    px = round(rng.uniform(5, 25), 3)
    P = (px, px) if rng.random() < .7 else (px, round(px * rng.uniform(.6, 1.5), 3))
    coolant = rng.choice(["Sodium", "Lead"])
    spec = {"blocks": {}, "assemblies": {}, "grids": {}, "custom isotopics": {}, "settings": {}, "family": "cart", "pitch": P}
    ndes = rng.randint(1, 4)
    heights = [round(rng.uniform(5, 60), 2) for _ in range(rng.randint(1, 6))]
    uniq = 0
    specs = []
    for d in range(ndes):
        bnames = []
        for k in range(len(heights)):
            if bnames and rng.random() < .3:
                bnames.append(rng.choice(bnames))
                continue
            kind = rng.choice(["fuel", "fuel", "control", "reflector"])
            uniq += 1
            bn = _name(rng, kind, uniq)
            bs = cart_block(rng, P, kind, coolant, uniq)
            if rng.random() < .35 and bs["components"][0]["shape"] == "Circle":
                cart_pin_lattice(rng, spec, bn, bs)
            if rng.random() < .2:
                bs["flags"] = " ".join(rng.sample(["fuel", "test", "control", "a", "lower", "reflector"], rng.randint(1, 2)))
            spec["blocks"][bn] = bs
            bnames.append(bn)
        uniq += 1
        aname = _name(rng, rng.choice(["fuel", "control", "reflector"]), uniq)
        sp = rng.choice(["U%d", "MX%d", "%dw"]) % d
        specs.append(sp)
        a = {"specifier": sp, "blocks": bnames, "height": list(heights), "axial mesh points": [rng.randint(1, 3) for _ in heights], "xs types": [rng.choice(XS_TYPES[:4] + XS_TYPES[9:]) for _ in heights]}
        if rng.random() < .3:
            a["flags"] = rng.choice(["fuel", "control test", "reflector outer"])
        add_material_mods(rng, spec, a)
        spec["assemblies"][aname] = a
    if rng.random() < .3:
        shared_isotopics_scenario(rng, spec)
    add_custom_isotopics(rng, spec)
    mode = rng.choice(["full-odd", "full-even", "quarter", "quarter-center"])
    n = rng.choice([1, 2, 3, 3, 4, 5]) if size is None else size
    if mode == "full-odd":
        nx = ny = 2 * (n // 2) + 1
        rect = (-(nx // 2), -(ny // 2), nx, ny)
        sym, mk = "full", "cart-full"
    elif mode == "full-even":
        nx, ny = 2 * max(1, n // 2), 2 * max(1, (n + 1) // 2)
        rect = (-(nx // 2), -(ny // 2), nx, ny)
        sym, mk = "full", "cart-full"
    else:
        nx, ny = n, rng.randint(1, n)
        rect = (0, 0, nx, ny)
        sym = "quarter reflective" if mode == "quarter" else "quarter reflective through center assembly"
        mk = "cart-quarter"
    cont = {}
    for i in range(rect[0], rect[0] + nx):
        for j in range(rect[1], rect[1] + ny):
            if rng.random() < .15:
                continue
            cont[(i, j)] = rng.choice(specs)
    # the rectangle must be spanned by the contents (the text form carries its size implicitly)
    for corner in ((rect[0], rect[1]), (rect[0] + nx - 1, rect[1] + ny - 1)):
        cont.setdefault(corner, specs[0])
    form = rng.choice(["text", "contents"])
    if form == "text" and rng.random() < .6:
        # a drawn map may be wider than what it holds: whole outer columns / lines of placeholders (a padding ring, or padding on
        # some sides only).  The text extent, not the occupied extent, says where (0,0) is.
        pl, pr, pb, pt = (rng.choice([0, 1, 1, 2]) for _ in range(4))
        if sym == "full":
            rect = (rect[0] - pl, rect[1] - pb, nx + pl + pr, ny + pb + pt)
            rect = (-(rect[2] // 2), -(rect[3] // 2), rect[2], rect[3])  # (0,0) in the middle of the drawn map
            lo_i, lo_j = rect[0] + pl, rect[1] + pb
            old = cont
            ox, oy = min(i for i, _ in old), min(j for _, j in old)
            cont = {(i - ox + lo_i, j - oy + lo_j): v for (i, j), v in old.items()}
        else:
            rect = (0, 0, nx + pr, ny + pt)  # quarter maps are anchored at the lower left: padding on the right / top only
        spec["padded_map"] = [pl, pr, pb, pt]
    spec["grids"]["core"] = {"geom": "cartesian", "symmetry": sym, "contents": cont, "mapkind": mk, "rect": rect, "form": form, "lattice pitch": P}
    if spec.get("padded_map") and any(spec["padded_map"]):
        spec["grids"]["core"]["padded"] = True  # the drawn extent differs from the occupied extent: where (0,0) sits in space is not decided by the document
    spec["systems"] = {"core": {"grid name": "core", "origin": (0.0, 0.0, rng.choice([0.0, 50.0]))}}
    finish_flags(rng, spec)
    return spec


def cart_pin_lattice(rng, spec, bn, bs):
    n = bs["n"]
    ids = rng.choice([["U"], ["U", "G"]])
    cont = {}
    even = n % 2 == 0
    i0 = -(n // 2)
    for i in range(i0, i0 + n):
        for j in range(i0, i0 + n):
            if rng.random() < .1 and (i, j) != (i0, i0) and (i, j) != (i0 + n - 1, i0 + n - 1):
                continue
            cont[(i, j)] = rng.choice(ids)
    gname = "pins %s" % bn
    spec["grids"][gname] = {"geom": "cartesian", "symmetry": "full", "contents": cont, "mapkind": "cart-full", "rect": (i0, i0, n, n), "form": rng.choice(["text", "contents"]),
                            "lattice pitch": (bs["cell"], bs["cell"]), "pin": True}
    bs["grid name"] = gname
    pins = [c for c in bs["components"] if c["shape"] == "Circle"]
    for c in pins:
        c["latticeIDs"] = list(ids)
        c.pop("mult", None)
    bs["lattice_count"] = len(cont)


# ---------------------------------------------------------------------------------------------- theta-RZ documents
def rz_document(rng, size=None):
    nr = rng.randint(1, 4) if size is None else size
    nt = rng.choice([1, 1, 2, 3, 4])
    span, sym = rng.choice([(2 * math.pi, "full"), (math.pi / 2, "quarter periodic"), (math.pi / 4, "eighth periodic")])
    rb = [0.0]
    for _ in range(nr):
        rb.append(round(rb[-1] + rng.uniform(2, 9), 3))
    tb = [0.0] + sorted(round(rng.uniform(.05, .95) * span, 6) for _ in range(nt - 1)) + [span]
    if len(set(tb)) != len(tb):
        tb = [span * k / nt for k in range(nt + 1)]
    heights = [round(rng.uniform(2, 20), 2) for _ in range(rng.randint(1, 5))]
    zb = [0.0]
    for h in heights:
        zb.append(zb[-1] + h)
    spec = {"blocks": {}, "assemblies": {}, "grids": {}, "custom isotopics": {}, "settings": {}, "family": "rz", "pitch": None}
    cont = {}
    uniq = 0
    for ti in range(nt):
        for ri in range(nr):
            if rng.random() < .15 and (ti, ri) != (0, 0):
                continue
            bnames = []
            for k, h in enumerate(heights):
                if bnames and rng.random() < .4:
                    bnames.append(bnames[-1])
                    continue
                uniq += 1
                kind = rng.choice(["fuel", "reflector", "shield"])
                bn = _name(rng, kind, uniq)
                f = round(rng.uniform(.2, .9), 6)
                hot = rng.random() < .5
                Ts = rng.uniform(100, 500) if hot else 26.85
                if rng.random() < .35:  # the same volume element stated by its differentials
                    seg = {"shape": "DifferentialRadialSegment", "inner_radius": rb[ri], "radius_differential": round(rb[ri + 1] - rb[ri], 6), "inner_axial": zb[k], "height": h,
                           "inner_theta": tb[ti], "azimuthal_differential": tb[ti + 1] - tb[ti]}
                else:
                    seg = {"shape": "RadialSegment", "inner_radius": rb[ri], "outer_radius": rb[ri + 1], "inner_theta": tb[ti], "outer_theta": tb[ti + 1], "height": h}
                fm = rng.choice(["UZr", "UO2"]) if kind == "fuel" else rng.choice(["HT9", "Zr", "Graphite"])
                comps = [dict({"name": kind, "material": fm, "Tinput": 26.85, "Thot": Ts}, mult=f, **seg),
                         dict({"name": "coolant", "material": rng.choice(["Sodium", "Lead"]), "Tinput": 400.0, "Thot": 400.0}, mult=round(1.0 - f, 6), **seg)]
                for c in comps:  # key order as a user writes it
                    c_sorted = {"name": c["name"], "shape": c["shape"], "material": c["material"], "Tinput": c["Tinput"], "Thot": c["Thot"]}
                    c_sorted.update({k2: v for k2, v in c.items() if k2 not in c_sorted})
                    c.clear()
                    c.update(c_sorted)
                spec["blocks"][bn] = {"components": comps, "kind": kind, "npins": 0, "pitch": None}
                bnames.append(bn)
            uniq += 1
            aname = _name(rng, "fuel" if any("fuel" in b for b in bnames) else "reflector", uniq)
            sp = "rz_%d_%d" % (ti, ri)
            a = {"specifier": sp, "blocks": bnames, "height": list(heights), "axial mesh points": [rng.randint(1, 5) for _ in heights], "xs types": [rng.choice(["A", "B", "b", "AB"]) for _ in heights],
                 "radial mesh points": rng.randint(1, 3), "azimuthal mesh points": rng.randint(1, 7)}
            add_material_mods(rng, spec, a)
            spec["assemblies"][aname] = a
            cont[(ti, ri)] = sp
    spec["grids"]["core"] = {"geom": "thetarz", "symmetry": sym, "contents": cont, "mapkind": "thetarz", "form": "contents", "grid bounds": {"r": rb, "theta": tb, "z": zb}}
    spec["systems"] = {"core": {"grid name": "core", "origin": (0.0, 0.0, 0.0)}}
    add_custom_isotopics(rng, spec)
    finish_flags(rng, spec)
    return spec


# =====================================================================================================================
# 5. lattice maps on their own
# =====================================================================================================================
def _tokens(rng, n):
    pool = rng.choice([["1", "2", "3"], ["IC", "OC", "SH", "RR"], ["A", "BB", "CCC", "DDDD"], ["F"], ["a1", "B_2", "x"]])
    return pool[:max(1, min(n, len(pool)))]


def map_case(rng, thorough):
    kind = rng.choice(["hex-third", "hex-third", "hex-full", "hex-full", "hexcu-full", "hexcu-full", "cart"])
    R = rng.randint(0, 8)
    holes = rng.choice([0.0, 0.0, .1, .3, .5])
    toks = _tokens(rng, rng.randint(1, 4))
    if kind == "cart":
        nx, ny = rng.randint(1, 9), rng.randint(1, 9)
        cont = {(i, j): rng.choice(toks) for i in range(nx) for j in range(ny) if rng.random() >= holes}
        cont.setdefault((0, 0), toks[0])
        cont.setdefault((nx - 1, ny - 1), toks[0])
        lines = fmt_cart(cont, 0, 0, nx, ny)
        text = lines_to_text(lines)
    else:
        cont = random_hex_contents(rng, kind, R, toks, holes)
        if kind == "hex-third":
            lines = fmt_third(cont)
            n = len(lines)
            text = lines_to_text(lines, stagger=lambda k: (n - k) % 2)
        elif kind == "hex-full":
            lines = fmt_full_flat(cont)
            text = lines_to_text(lines, stagger=lambda k: k % 2)
        else:
            lines = fmt_full_tips(cont)
            text = lines_to_text(lines, stagger=lambda k: k)
    return kind, cont, text, {"kind": kind, "rings": R + 1, "holes": holes, "cells": len(cont)}


def ragged_contents(rng, kind):
    """Index sets that do not come from a drawn map: sparse, lopsided, possibly with negative Cartesian indices or cells outside
    the first third.  The property allows two outcomes only: a text that reads back to exactly these contents, or a refusal."""
    toks = _tokens(rng, 3)
    R = rng.randint(0, 6)
    if kind == "cart":
        lo = rng.choice([0, 0, 0, -1, -3])
        cells = [(i, j) for i in range(lo, lo + rng.randint(1, 7)) for j in range(lo, lo + rng.randint(1, 7))]
        shape = "cart/" + ("nonnegative" if lo == 0 else "negative-indices")
    else:
        cells = hex_cells(R)
        shape = kind + "/inside"
        if kind == "hex-third":
            if rng.random() < .25:
                shape = kind + "/outside-first-third"
                cells = [c for c in cells if ring_of(*c) <= R]
            else:
                cells = [c for c in cells if in_third(*c)]
    keep = rng.choice([.15, .4, .7, 1.0])
    cont = {c: rng.choice(toks) for c in cells if rng.random() < keep}
    if kind != "cart" and R >= 2 and shape.endswith("/inside") and rng.random() < (.5 if kind == "hex-third" else .2):
        # an annular layout: the outline is complete, the centre (and now and then a cell next to it) is empty - a legal core or pin
        # lattice whose first or last text row is blank
        cont = {c: rng.choice(toks) for c in cells}
        cont.pop((0, 0), None)
        if kind == "hex-third" and rng.random() < .6:
            for c in [c for c in cont if c[0] + 2 * c[1] == 0]:  # the whole text row of the centre (cells on the y=0 line) is empty
                cont.pop(c)
        if rng.random() < .3:
            cont.pop(rng.choice([c for c in cont if ring_of(*c) == 2]), None)
        shape = kind + "/inside-no-centre"
    if not cont:
        cont = {cells[0]: toks[0]}
    if kind == "hex-third" and shape.endswith("outside-first-third") and all(in_third(*c) for c in cont):
        shape = kind + "/inside"
    return cont, shape


def outline_class(kind, cont):
    """Mechanism class of an index set for the writers: 'complete-outline' = every cell of the outermost ring of the (third of the)
    hexagon is present (holes only inside); Cartesian: 'from-origin' = indices >= 0 with a cell in column 0 and in row 0."""
    if kind.startswith("cart"):
        imin, jmin = min(i for i, j in cont), min(j for i, j in cont)
        if imin < 0 or jmin < 0:
            return "negative-indices"
        return "from-origin" if imin == 0 and jmin == 0 else "away-from-origin"
    R = max(ring_of(*c) for c in cont)
    ring = [c for c in hex_cells(R) if ring_of(*c) == R and (kind != "hex-third" or in_third(*c))]
    if kind == "hex-third" and not all(in_third(*c) for c in cont):
        return "outside-first-third"
    return "complete-outline" if all(c in cont for c in ring) else "ragged-outline"


def armi_map_cls(kind):
    from armi.utils import asciimaps

    return getattr(asciimaps, MAPFMT[kind][4])


def judge_map_text(rec, rng, i, thorough):
    """(a) armi reads my rendering to my contents; (b) text -> contents -> text -> contents through armi is idempotent."""
    kind, cont, text, sig = map_case(rng, thorough)
    w = {"kind": kind, "text": text, "contents": {"%d,%d" % k: v for k, v in cont.items()}}
    cls = armi_map_cls(kind)
    try:
        m = cls()
        m.readAscii(text)
        c1 = dict(m.items())
    except Exception as e:
        rec.crash("map-read/%s" % kind, e, w)
        return sig
    rec.hit("map.read-mine")
    if strip_ph(c1) != cont:
        miss = sorted(set(cont.items()) ^ set(strip_ph(c1).items()))[:6]
        rec.violation("map/read/%s" % kind, "armi reads the %s map differently from the layout it was drawn from; differing entries %r" % (kind, miss), w)
        return sig
    try:
        m2 = cls()
        m2.asciiLabelByIndices = dict(strip_ph(c1))
        m2.gridContentsToAscii()
        t2 = str(m2)
    except Exception as e:
        rec.reject("map written from read contents refused (%s): %s" % (kind, type(e).__name__))
        return sig
    try:
        m3 = cls()
        m3.readAscii(t2)
        c2 = strip_ph(dict(m3.items()))
    except Exception as e:
        rec.violation("map/text-roundtrip/unreadable/%s" % kind, "armi cannot read back the %s map it wrote: %s: %s" % (kind, type(e).__name__, e), dict(w, written=t2))
        return sig
    rec.hit("map.text-roundtrip")
    oc = outline_class(kind, cont)
    sig["outline"] = oc
    if c2 != cont:
        miss = sorted(set(cont.items()) ^ set(c2.items()))[:6]
        rec.violation("map-writer/%s/%s" % (kind, oc), "[text round trip] text -> contents -> text -> contents changed the contents of a %s map (%s); differing entries %r" % (kind, oc, miss), dict(w, written=t2))
    else:
        mine = strip_ph(MAPFMT[kind][3](text_to_lines(t2)))
        if mine != cont:
            rec.violation("map/written-text-reads-differently-by-format/%s/%s" % (kind, oc), "the %s text armi wrote means %r by the documented format" % (kind, sorted(set(cont.items()) ^ set(mine.items()))[:6]), dict(w, written=t2))
        m4 = cls()
        m4.asciiLabelByIndices = dict(c2)
        m4.gridContentsToAscii()
        if str(m4) != t2:
            rec.violation("map/text-not-idempotent/%s/%s" % (kind, oc), "writing the re-read contents gives a different text", dict(w, written=t2, rewritten=str(m4)))
    return sig


def judge_map_contents(rec, rng, i):
    kind = rng.choice(["hex-third", "hex-full", "hexcu-full", "cart"])
    if i % 6 == 3:
        # every sixth case: a third core whose outline is complete and whose centre row is empty (annular core, pin lattice without centre pin)
        kind = "hex-third"
        R_ = rng.randint(2, 6)
        toks_ = _tokens(rng, 3)
        forced = {c: rng.choice(toks_) for c in hex_cells(R_) if in_third(*c) and c[0] + 2 * c[1] != 0}
    else:
        forced = None
    cont, shape = ragged_contents(rng, kind)
    if forced:
        cont = forced
    oc = outline_class(kind, cont)
    shape = "%s/%s" % (kind, oc)
    sig = {"kind": kind, "shape": shape, "cells": len(cont)}
    w = {"kind": kind, "shape": shape, "contents": {"%d,%d" % k: v for k, v in cont.items()}}
    cls = armi_map_cls(kind)
    try:
        m = cls()
        m.asciiLabelByIndices = dict(cont)
        m.gridContentsToAscii()
        text = str(m)
    except Exception as e:
        rec.reject("contents refused (%s): %s" % (shape, type(e).__name__))
        if (0, 0) not in cont and oc == "complete-outline":
            rec.hit("map.contents.annular-offered")
        return dict(sig, outcome="refused")
    w["written"] = text
    if oc == "outside-first-third":
        # a third-core map cannot hold such cells; GridBlueprint.saveToStream removes them before drawing (_filterOutsideDomain), so
        # handing them to the map class directly is outside its documented use: observed, not judged
        rec.skip("cells outside the first third given directly to the third-core map class (saveToStream filters them first)")
        return dict(sig, outcome="unjudged")
    rec.hit("map.contents-roundtrip")
    if (0, 0) not in cont and oc == "complete-outline":
        rec.hit("map.contents-roundtrip.annular")
    try:
        m2 = cls()
        m2.readAscii(text)
        back = strip_ph(dict(m2.items()))
    except Exception as e:
        rec.violation("map-writer/%s" % shape, "[contents round trip] armi cannot read the text it drew from indexed contents: %s: %s" % (type(e).__name__, e), w)
        return dict(sig, outcome="unreadable")
    if back != cont:
        lost = sorted(k for k in cont if k not in back)
        moved = sorted(k for k in back if k not in cont)
        rec.violation("map-writer/%s" % shape, "[contents round trip] contents drawn as text do not read back (drawn incompletely or elsewhere, not refused): %d cells lost %r, %d appear at other indices %r"
                      % (len(lost), lost[:5], len(moved), moved[:5]), w)
        return dict(sig, outcome="unfaithful")
    mine = strip_ph(MAPFMT[kind][3](text_to_lines(text)))
    if mine != cont:
        rec.violation("map/written-text-reads-differently-by-format/%s" % shape, "the text armi drew means something else by the documented format: %r" % (sorted(set(cont.items()) ^ set(mine.items()))[:6],), w)
    return dict(sig, outcome="drawn")


def judge_grid_save(rec, rng, i):
    """GridBlueprint level: load -> contents == spec; saveToStream(tryMap) -> load -> same contents."""
    from armi.reactor.blueprints import gridBlueprint

    kind = rng.choice(["hex-third", "hex-full", "hexcu-full", "cart-full-odd", "cart-full-even", "cart-quarter"])
    toks = _tokens(rng, 3)
    if toks[0].isdigit():
        toks = ["n" + t for t in toks]  # a bare number in `grid contents` is a YAML integer, not a specifier string
    if kind.startswith("cart"):
        n = rng.randint(1, 6)
        if kind == "cart-full-odd":
            nx = ny = 2 * (n // 2) + 1
            rect = (-(nx // 2), -(ny // 2), nx, ny)
        elif kind == "cart-full-even":
            nx, ny = 2 * max(1, n // 2), 2 * max(1, (n + 1) // 2)
            rect = (-(nx // 2), -(ny // 2), nx, ny)
        else:
            nx, ny = n, rng.randint(1, n)
            rect = (0, 0, nx, ny)
        cont = {(a, b): rng.choice(toks) for a in range(rect[0], rect[0] + nx) for b in range(rect[1], rect[1] + ny) if rng.random() > .2}
        cont.setdefault((rect[0], rect[1]), toks[0])
        cont.setdefault((rect[0] + nx - 1, rect[1] + ny - 1), toks[0])
        g = {"geom": "cartesian", "symmetry": "full" if "full" in kind else "quarter reflective", "contents": cont, "mapkind": "cart-full" if "full" in kind else "cart-quarter", "rect": rect,
             "lattice pitch": (1.26, 1.26)}
    else:
        g = core_grid(rng, kind, toks, R=rng.randint(0, 6))
        cont = g["contents"]
    g["form"] = rng.choice(["text", "contents"])
    text = render_grid("g", g)
    w = {"kind": kind, "form": g["form"], "yaml": text, "contents": {"%d,%d" % k: v for k, v in cont.items()}}
    try:
        grids = gridBlueprint.Grids.load(io.StringIO(text))
        gd = grids["g"]
        gd.construct()
        c1 = {(int(k[0]), int(k[1])): v for k, v in gd.gridContents.items()}
    except Exception as e:
        rec.crash("grid-load/%s/%s" % (kind, g["form"]), e, w)
        return {"kind": kind, "form": g["form"]}
    rec.hit("grid.load")
    if c1 != cont:
        rec.violation("grid/load/%s/%s" % (kind, g["form"]), "grid contents after load differ from the document: %r" % (sorted(set(cont.items()) ^ set(c1.items()))[:6],), w)
        return {"kind": kind, "form": g["form"]}
    oc = outline_class(kind, cont)
    try:
        out = io.StringIO()
        from vlib.env import quiet

        with quiet():
            gridBlueprint.saveToStream(out, grids, full=False, tryMap=True)
        saved = out.getvalue()
    except Exception as e:
        rec.reject("saveToStream refused (%s/%s): %s" % (kind, oc, type(e).__name__))
        return {"kind": kind, "form": g["form"], "outline": oc, "outcome": "refused"}
    try:
        grids2 = gridBlueprint.Grids.load(io.StringIO(saved))
        gd2 = grids2["g"]
        gd2.construct()
        c2 = {(int(k[0]), int(k[1])): v for k, v in gd2.gridContents.items()}
    except Exception as e:
        rec.violation("grid/saved-text-unreadable/%s/%s" % (kind, oc), "the grid section written by saveToStream cannot be loaded: %s: %s" % (type(e).__name__, e), dict(w, saved=saved))
        return {"kind": kind, "form": g["form"], "outline": oc, "outcome": "unreadable"}
    rec.hit("grid.save-roundtrip")
    as_map = "lattice map" in saved
    rec.add("grid saved as %s" % ("lattice map" if as_map else "grid contents"))
    if c2 != cont:
        lost = sorted(k for k in cont if k not in c2)
        moved = sorted(k for k in c2 if k not in cont)
        rec.violation("map-writer/%s/%s" % (kind.split("-full-")[0].replace("cart-quarter", "cart"), oc) if as_map else "grid/save-roundtrip/%s/%s/as-contents" % (kind, oc),
                      "[GridBlueprint saveToStream round trip, %s] grid saved and loaded again differs:" % kind + " %d cells lost %r, %d new %r" % (len(lost), lost[:5], len(moved), moved[:5]), dict(w, saved=saved))
    return {"kind": kind, "form": g["form"], "outline": oc, "saved_as_map": as_map}


# =====================================================================================================================
# 6. planted inconsistencies
# =====================================================================================================================
INVALID_KINDS = [
    "unknown-specifier/text-map", "unknown-specifier/grid-contents", "overlapping-solids/linked-annulus", "duplicate/component-name", "duplicate/block-name",
    "duplicate/assembly-name", "duplicate/specifier", "duplicate/grid-name", "duplicate/isotopics-name", "unequal/heights-short", "unequal/heights-long", "unequal/xs-types-short",
    "unequal/xs-types-long", "unequal/mesh-points", "unequal/material-modification", "missing-nuclide-flag/material", "missing-nuclide-flag/custom-isotopics",
    "unknown/material-modification-key", "unknown/by-component-name", "unknown/link-target", "unknown/isotopics-name", "unknown/lattice-grid-name", "conflict/mult-vs-lattice",
    "isotopics/fractions-do-not-sum", "isotopics/density-with-number-densities", "isotopics/density-on-void",
]


def plant(rng, kind):
    """-> (spec, text) of a document that is valid except for one planted inconsistency, or None if this draw cannot host it."""
    import copy

    for attempt in range(60):
        spec = hex_document(rng, size=rng.choice([0, 1, 2])) if rng.random() < .7 else cart_document(rng, size=rng.choice([1, 2, 3]))
        g = spec["grids"]["core"]
        designs = list(spec["assemblies"].items())
        an, a = rng.choice(designs)
        used_blocks = [bn for _, ad in designs for bn in ad["blocks"] if any(v == ad["specifier"] for v in g["contents"].values())]
        if kind.startswith("unknown-specifier"):
            if kind.endswith("text-map") and g["mapkind"] == "hexcu-third":
                continue  # no text-map format exists for that geometry
            g["form"] = "text" if kind.endswith("text-map") else "contents"
            cell = rng.choice(sorted(g["contents"]))
            g["contents"][cell] = "QQ"
            return spec, render(spec)
        if kind == "overlapping-solids/linked-annulus":
            cands = [bn for bn in used_blocks if any(c["name"] == "clad" for c in spec["blocks"][bn]["components"]) and spec["blocks"][bn]["components"][0]["shape"] == "Circle"
                     and spec["blocks"][bn]["components"][0]["name"] in ("fuel", "control")]
            if not cands:
                continue
            bs = spec["blocks"][rng.choice(cands)]
            inner = bs["components"][0]
            clad = bs_comp(bs, "clad")
            inner["od"] = clad["id"] * rng.uniform(1.02, 1.2)  # pellet wider than the clad's bore
            liner = {"name": "liner", "shape": "Circle", "material": rng.choice(["HT9", "Zr"]), "Tinput": 25.0, "Thot": clad["Thot"], "id": "%s.od" % inner["name"], "od": "clad.id", "mult": clad.get("mult", inner.get("mult", 1))}
            if "latticeIDs" in clad:
                liner["latticeIDs"] = list(clad["latticeIDs"])
                liner.pop("mult", None)
            bs["components"] = [c for c in bs["components"] if c["name"] not in ("bond", "gap")]
            bs["components"].insert(1, liner)
            for ad in spec["assemblies"].values():  # modifications by component may name the removed gap: none do (only fuel/absorber)
                pass
            return spec, render(spec)
        if kind == "duplicate/component-name":
            bs = spec["blocks"][rng.choice(used_blocks)]
            c = copy.deepcopy(rng.choice([c for c in bs["components"] if c["shape"] != "DerivedShape"]))
            bs["components"].insert(rng.randrange(len(bs["components"]) + 1), c)
            return spec, render(spec)
        if kind == "duplicate/block-name":
            text = render(spec)
            bn = rng.choice(list(spec["blocks"]))
            other = rng.choice(list(spec["blocks"]))
            if other == bn:
                continue
            text = text.replace("    %s: &" % other, "    %s: &" % bn, 1)
            return spec, text
        if kind == "duplicate/assembly-name":
            if len(designs) < 2:
                continue
            # two designs under one name; the map only uses the specifier of the one written last, so nothing else is wrong
            for cell, v in list(g["contents"].items()):
                if v == designs[0][1]["specifier"]:
                    g["contents"][cell] = designs[1][1]["specifier"]
            text = render(spec)
            text = text.replace("    %s:\n" % designs[1][0], "    %s:\n" % designs[0][0], 1)
            return spec, text
        if kind == "duplicate/specifier":
            if len(designs) < 2:
                continue
            for cell, v in list(g["contents"].items()):  # two designs answer to one specifier; every cell uses that specifier
                if v == designs[1][1]["specifier"]:
                    g["contents"][cell] = designs[0][1]["specifier"]
            designs[1][1]["specifier"] = designs[0][1]["specifier"]
            return spec, render(spec)
        if kind == "duplicate/grid-name":
            text = render(spec)
            extra = render_grid("core", dict(g, form="contents"), indent="    ")
            return spec, text + extra
        if kind == "duplicate/isotopics-name":
            if len(spec["custom isotopics"]) < 1:
                continue
            text = render(spec)
            nm = next(iter(spec["custom isotopics"]))
            iso = spec["custom isotopics"][nm]
            dup = "    %s:\n" % nm + "".join("        %s: %s\n" % (k_, _fmt(v)) for k_, v in iso.items())
            return spec, text.replace("custom isotopics:\n", "custom isotopics:\n" + dup, 1)
        if kind.startswith("unequal/"):
            if not any(v == a["specifier"] for v in g["contents"].values()):
                continue
            what = kind.split("/")[1]
            if what.startswith("heights"):
                a["height"] = a["height"][:-1] if what.endswith("short") else a["height"] + [a["height"][-1]]
                if not a["height"]:
                    continue
            elif what.startswith("xs-types"):
                a["xs types"] = a["xs types"][:-1] if what.endswith("short") else a["xs types"] + ["A"]
                if not a["xs types"]:
                    continue
            elif what == "mesh-points":
                a["axial mesh points"] = a["axial mesh points"] + [1] if rng.random() < .5 or len(a["axial mesh points"]) == 1 else a["axial mesh points"][:-1]
            else:
                mm = a.get("material modifications")
                if not mm or not [k_ for k_ in mm if k_ != "by component"]:
                    continue
                key = rng.choice([k_ for k_ in mm if k_ != "by component"])
                mm[key] = mm[key] + [""] if rng.random() < .5 or len(mm[key]) == 1 else mm[key][:-1]
            return spec, render(spec)
        if kind == "missing-nuclide-flag/material":
            finish = spec["nuclide flags"]
            used = [c for bn in used_blocks for c in spec["blocks"][bn]["components"] if not c.get("isotopics") and c["material"] not in ("Void", "Custom")]
            if not used:
                continue
            from armi import materials

            c = rng.choice(used)
            names = list(materials.resolveMaterialClassByName(c["material"])().massFrac)
            drop = rng.choice(names)
            finish.pop(drop, None)
            if not _flags_insufficient(spec, names):
                continue  # still covered (e.g. MN55 through the expansion of MN): not an inconsistency
            return spec, render(spec)
        if kind == "missing-nuclide-flag/custom-isotopics":
            used = [c for bn in used_blocks for c in spec["blocks"][bn]["components"] if c.get("isotopics")]
            if not used:
                continue
            iso = spec["custom isotopics"][rng.choice(used)["isotopics"]]
            drop = rng.choice([k_ for k_ in iso if k_ not in ("input format", "density")])
            spec["nuclide flags"].pop(drop, None)
            if not _flags_insufficient(spec, [k_ for k_ in iso if k_ not in ("input format", "density")]):
                continue
            return spec, render(spec)
        if kind == "unknown/material-modification-key":
            if not any(v == a["specifier"] for v in g["contents"].values()):
                continue
            a.setdefault("material modifications", {})["XX_wt_frac"] = [0.5] * len(a["blocks"])
            return spec, render(spec)
        if kind == "unknown/by-component-name":
            if not any(v == a["specifier"] for v in g["contents"].values()):
                continue
            a.setdefault("material modifications", {}).setdefault("by component", {})["no such component"] = {"TD_frac": [0.9] * len(a["blocks"])}
            return spec, render(spec)
        if kind == "unknown/link-target":
            bs = spec["blocks"][rng.choice(used_blocks)]
            linked = [(c, k_) for c in bs["components"] for k_, v in c.items() if k_ not in NON_DIM_KEYS and _is_link(v)]
            if not linked:
                continue
            c, k_ = rng.choice(linked)
            c[k_] = "nothing." + c[k_].split(".")[1]
            return spec, render(spec)
        if kind == "unknown/isotopics-name":
            bs = spec["blocks"][rng.choice(used_blocks)]
            c = rng.choice([c for c in bs["components"] if c["material"] != "Void"])
            c["isotopics"] = "never defined"
            return spec, render(spec)
        if kind == "unknown/lattice-grid-name":
            bs = spec["blocks"][rng.choice(used_blocks)]
            bs["grid name"] = "no such grid"
            return spec, render(spec)
        if kind == "conflict/mult-vs-lattice":
            cands = [bn for bn in used_blocks if spec["blocks"][bn].get("lattice_count", 0) > 2]
            if not cands:
                continue
            bs = spec["blocks"][rng.choice(cands)]
            c = next(c for c in bs["components"] if c.get("latticeIDs"))
            grid = spec["grids"][bs["grid name"]]
            n = sum(1 for v in grid["contents"].values() if v in c["latticeIDs"])
            if n < 3:
                continue
            c["mult"] = n - 1
            return spec, render(spec)
        if kind.startswith("isotopics/"):
            used = [c for bn in used_blocks for c in spec["blocks"][bn]["components"] if c.get("isotopics")]
            if kind == "isotopics/density-on-void":
                bs = spec["blocks"][rng.choice(used_blocks)]
                voids = [c for c in bs["components"] if c["material"] == "Void"]
                if not voids:
                    continue
                spec["custom isotopics"]["heavy void"] = {"input format": "mass fractions", "density": 3.0, "FE": 1.0}
                voids[0]["isotopics"] = "heavy void"
                spec["nuclide flags"].setdefault("FE", {"burn": False, "xs": True})
                return spec, render(spec)
            if not used:
                continue
            iso = spec["custom isotopics"][rng.choice(used)["isotopics"]]
            if kind == "isotopics/fractions-do-not-sum":
                if iso["input format"] == "number densities":
                    continue
                k_ = rng.choice([k_ for k_ in iso if k_ not in ("input format", "density")])
                iso[k_] = iso[k_] + rng.choice([.01, .2, -.5 * iso[k_] - .001])
                return spec, render(spec)
            if kind == "isotopics/density-with-number-densities":
                if iso["input format"] != "number densities":
                    continue
                iso["density"] = 5.0
                return spec, render(spec)
    return None


def _flags_insufficient(spec, names):
    """True if some nuclide of a composition holding `names` is not among the nuclides the (remaining) flags declare."""
    rd = Reading(spec)
    allowed = set()
    for n in spec["nuclide flags"]:
        allowed.update(rd.expand_name(n))
    needed = rd.expand({n: 1.0 for n in names})
    return any(n not in allowed for n in needed)


PROGRAMMING_ERRORS = (AttributeError, TypeError, IndexError, NameError, UnboundLocalError, ZeroDivisionError, RecursionError, AssertionError, NotImplementedError)


def refusal_class(e):
    """How a document was refused.  'validation': an exception that armi (or the yamlize / voluptuous schema layer it drives) raised with
    an explicit `raise` statement - InputError, ValueError, YamlizingError, the ArithmeticError of the negative-area check, a KeyError
    with a message ...: 'refused with an error'.  Otherwise the exception fell out of a failing operation (a dict lookup, an attribute of
    None, an index): 'programming-error' for the classes that never describe an input (AttributeError, TypeError, IndexError ...),
    'lookup' for a bare KeyError / LookupError naming the missing thing (observed today for an unknown assembly specifier: counted, not a violation)."""
    import os
    import traceback

    tb = traceback.extract_tb(e.__traceback__)
    last = tb[-1] if tb else None
    raised = False
    if last is not None:
        fn = os.path.realpath(last.filename)
        line = (last.line or "").strip()
        in_lib = "/armi/" in fn or "/yamlize/" in fn or "/voluptuous/" in fn
        raised = in_lib and (line.startswith("raise ") or line == "raise")
    if raised and not isinstance(e, PROGRAMMING_ERRORS):
        return "validation"
    if isinstance(e, PROGRAMMING_ERRORS):
        return "programming-error"
    return "lookup" if isinstance(e, LookupError) else "other"


def judge_invalid(rec, rng, i, kind):
    got = plant(rng, kind)
    if got is None:
        rec.skip("planted inconsistency could not be hosted by 60 random documents: " + kind)
        return None
    spec, text = got
    try:
        r, bp, _ = build(spec, text)
    except Exception as e:
        how = refusal_class(e)
        if how == "validation":
            rec.hit("invalid.refused")
            rec.reject("refused %s: %s" % (kind, type(e).__name__))
            return {"kind": kind, "outcome": type(e).__name__}
        # not an error armi raised about the input: the document was stopped by a failing operation somewhere inside
        rec.hit("invalid.refused-by-crash")
        rec.add("invalid.refused-by-crash/%s/%s" % (kind, type(e).__name__))
        rec.reject("refused by a crash, not by a validation error, %s: %s" % (kind, type(e).__name__))
        if how == "programming-error":
            rec.violation("refused-by-crash/%s/%s" % (kind, type(e).__name__),
                          "a document with a planted inconsistency (%s) was not refused with an error about the input: construction died with %s: %s" % (kind, type(e).__name__, str(e)[:300]),
                          doc_witness(spec, text, planted=kind, traceback="".join(__import__("traceback").format_exception(type(e), e, e.__traceback__)[-6:])[-2500:]))
        return {"kind": kind, "outcome": "crash:" + type(e).__name__}
    rec.hit("invalid.accepted")
    rec.violation("accepted-inconsistent/" + kind, "a document with a planted inconsistency (%s) was built without any error" % kind, doc_witness(spec, text, planted=kind))
    return {"kind": kind, "outcome": "accepted"}


# =====================================================================================================================
# 7. shards
# =====================================================================================================================
def plan(tier, seed):
    q = tier == "quick"
    out = []
    for k in range(8):
        out.append({"name": "hex%d" % k, "kind": "docs", "family": "hex", "n": 18 if q else 430})
    for k in range(3):
        out.append({"name": "cart%d" % k, "kind": "docs", "family": "cart", "n": 22 if q else 500})
    for k in range(2):
        out.append({"name": "rz%d" % k, "kind": "docs", "family": "rz", "n": 22 if q else 550})
    if q:
        out.append({"name": "maps", "kind": "maps", "n": 900})
    else:
        out += [{"name": "maps%d" % k, "kind": "maps", "n": 3000} for k in range(3)]
    out.append({"name": "invalid0", "kind": "invalid", "n": 39 if q else 320, "offset": 0})
    out.append({"name": "invalid1", "kind": "invalid", "n": 39 if q else 320, "offset": 13})
    out.append({"name": "shapes", "kind": "shapes", "n": 3 * len(PROBE_SHAPES) if q else 60 * len(PROBE_SHAPES)})
    return out


def layout_signature(spec):
    g = spec["grids"][spec["systems"]["core"]["grid name"]]
    des = []
    for an, a in spec["assemblies"].items():
        row = []
        for bn in a["blocks"]:
            bs = spec["blocks"][bn]
            row.append([bs.get("kind"), bool(bs.get("grid name")), bool(bs.get("flags")), [(c["shape"], c["material"], bool(c.get("isotopics")), bool(c.get("flags"))) for c in bs["components"]]])
        mm = a.get("material modifications") or {}
        des.append([row, sorted(k for k in mm if k != "by component"), sorted((mm.get("by component") or {})), bool(a.get("flags"))])
    iso = sorted((v["input format"], "density" in v) for v in spec["custom isotopics"].values())
    return [spec["family"], g["mapkind"], g["form"], g["symmetry"], len(g["contents"]), des, iso, sorted(spec.get("settings", {}))]


def nontrivial(spec):
    g = spec["grids"][spec["systems"]["core"]["grid name"]]
    mats = {c["material"] for b in spec["blocks"].values() for c in b["components"]}
    return len(mats) >= 2 and len(g["contents"]) >= 2


def run_shard(spec, rec):
    kind = spec["kind"]
    if kind == "docs":
        run_docs(spec, rec)
    elif kind == "maps":
        run_maps(spec, rec)
    elif kind == "shapes":
        run_shapes(spec, rec)
    else:
        run_invalid(spec, rec)


def run_shapes(sh, rec):
    for i in range(sh["n"]):
        rng = random.Random("%s:%d" % (sh["rng"], i))
        shape = PROBE_SHAPES[i % len(PROBE_SHAPES)]
        spec = shape_probe_document(rng, shape)
        text = render(spec)
        rec.hit("shape-probe")
        try:
            r, bp, _ = build(spec, text)
        except Exception as e:
            # a regular document naming a registered shape class: a refusal is a verdict, keyed by the shape (the mechanism), not by the site
            rec.crash("build-shape/%s" % shape, e, doc_witness(spec, text, case=i, shape=shape))
            rec.case(["shape-probe", shape, "crash", type(e).__name__], nontrivial=True)
            continue
        rec.hit("shape-probe.built")
        try:
            compare_reactor(rec, spec, r, text)
            check_inputs_unchanged(rec, spec, bp, text)
        except Exception as e:
            rec.crash("compare/shape-probe/%s" % shape, e, doc_witness(spec, text, case=i))
            continue
        rec.add("documents:shape-probe/%s" % shape)
        rec.case(["shape-probe", layout_signature(spec)], nontrivial=nontrivial(spec), sample={"shape": shape, "yaml_head": text[-1800:]} if i < 1 else None)


def run_docs(sh, rec):
    gen_doc = {"hex": hex_document, "cart": cart_document, "rz": rz_document}[sh["family"]]
    for i in range(sh["n"]):
        rng = random.Random("%s:%d" % (sh["rng"], i))
        try:
            spec = gen_doc(rng)
            text = render(spec)
        except Exception:
            raise  # harness error
        try:
            r, bp, _ = build(spec, text)
        except Exception as e:
            rec.crash("build/%s" % sh["family"], e, doc_witness(spec, text, case=i))
            continue
        try:
            nloc = compare_reactor(rec, spec, r, text)
            if spec.get("padded_map") and any(spec["padded_map"]):
                rec.hit("docs.cart-map-with-placeholder-padding")
            check_inputs_unchanged(rec, spec, bp, text)
        except Exception as e:
            rec.crash("compare/%s" % sh["family"], e, doc_witness(spec, text, case=i))
            continue
        if spec.get("shared") or i % 5 == 1:  # construction-order independence
            spec2, how = reordered(rng, spec)
            if spec2 is not None:
                try:
                    text2 = render(spec2)
                    r2, bp2, _ = build(spec2, text2)
                    rec.hit("order-independence")
                    c1, c2 = design_compositions(bp), design_compositions(bp2)
                    for name in c2:
                        d = first_difference(c1[name], c2[name], "design %r" % name)
                        if d:
                            rec.violation("construction-order-dependence/%s" % how, "a design's composition depends on what was built before it (%s): %s" % (how, d),
                                          doc_witness(spec, text, case=i, other_order=text2[:4000]))
                            break
                except Exception as e:
                    rec.crash("rebuild-reordered/%s/%s" % (sh["family"], how), e, doc_witness(spec, text, case=i))
        if i % 4 == 0:  # determinism: the same text, built again
            try:
                r2, _, _ = build(spec, text)
                rec.hit("determinism")
                d = first_difference(observe(r), observe(r2))
                if d:
                    rec.violation("determinism/%s" % sh["family"], "two constructions of the same text differ: %s" % d, doc_witness(spec, text, case=i))
            except Exception as e:
                rec.crash("rebuild/%s" % sh["family"], e, doc_witness(spec, text, case=i))
        g = spec["grids"]["core"]
        rec.add("documents:%s/%s/%s" % (sh["family"], g["mapkind"], g["form"]))
        rec.case(layout_signature(spec), nontrivial=nontrivial(spec),
                 sample={"family": sh["family"], "map": g["mapkind"], "form": g["form"], "locations": len(g["contents"]), "designs": len(spec["assemblies"]), "yaml_head": text[:1500]} if i < 1 else None)


def run_maps(sh, rec):
    validate_formats_against_fixtures(rec)  # raises (harness error) if my formats are wrong
    # the fixtures themselves through armi: literal text -> contents (mine) -> text -> contents
    from armi.utils.tests import test_asciimaps as T

    for kind, text in (("hex-third", T.HEX_THIRD_MAP), ("hex-third", T.HEX_THIRD_MAP_2), ("hex-third", T.HEX_THIRD_MAP_WITH_HOLES), ("hexcu-full", T.HEX_FULL_MAP),
                       ("hex-full", T.HEX_FULL_MAP_FLAT), ("hex-full", T.HEX_FULL_MAP_SMALL), ("cart", T.CARTESIAN_MAP)):
        cls = armi_map_cls(kind)
        m = cls()
        m.readAscii(text)
        mine = strip_ph(MAPFMT[kind][3](text_to_lines(text)))
        rec.hit("map.read-mine")
        if strip_ph(dict(m.items())) != mine:
            rec.violation("map/read/%s" % kind, "armi reads a fixture map of its own test-suite differently from the documented format", {"kind": kind, "text": text})
    third = sh["n"] // 3
    for i in range(sh["n"]):
        rng = random.Random("%s:%d" % (sh["rng"], i))
        if i < third:
            sig = judge_map_text(rec, rng, i, sh["tier"] == "thorough")
            rec.case(["map-text", sig], nontrivial=sig["cells"] >= 2, sample=sig if i < 1 else None)
        elif i < 2 * third:
            sig = judge_map_contents(rec, rng, i)
            rec.case(["map-contents", sig], nontrivial=sig["cells"] >= 2, sample=sig if i == third else None)
        else:
            sig = judge_grid_save(rec, rng, i)
            rec.case(["grid-save", sig], nontrivial=True)


def run_invalid(sh, rec):
    for i in range(sh["n"]):
        rng = random.Random("%s:%d" % (sh["rng"], i))
        kind = INVALID_KINDS[(i + sh.get("offset", 0)) % len(INVALID_KINDS)]
        sig = judge_invalid(rec, rng, i, kind)
        if sig:
            rec.case(["invalid", sig["kind"], sig["outcome"]], nontrivial=True, sample=sig if i < 2 else None)
