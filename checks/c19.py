"""C19 - nuclide directory and material library are internally consistent (exhaustive scan).

Monitors walk the *live* module-level indices after the real factory and burn-chain import ran.
Oracles: identity of index look-ups, an independent identifier encoder written from the statement
(own periodic table, own MCNP/AAAZZZS/name/label rules), abundance sums, burn-chain closure,
material instantiation and finite-positive property scans over each stated validity range.
"""
import math
import random
import re

PROP = "C19"
LEVEL = "exploration"
RULE = (
    "exhaustive: every nuclide base in nuclideBases.instances x every identifier kind; every element; every burn-chain entry; "
    "every class in armi.materials x N temperatures across each stated validity range. A case = one (nuclide|element|"
    "transmutation|material,temperature) tuple; all distinct; non-trivial = has at least one identifier / product / property to judge. "
    "Plus a seeded (not exhaustive) relabel shard: changeLabel histories on materials' nuclides and random nuclides, all label look-ups and materials re-judged after each step."
)
EXHAUSTIVE = {"quick": True, "thorough": True}
EXHAUSTIVE_PART = "all nuclide bases, elements, burn-chain entries and material classes (temperatures are a grid over each stated range)"
TOLERANCES = {"abundance_sum": 1e-6, "massfrac_sum": 1e-5}
FLOORS = {"quick": {"nuclide": 4000, "element": 100, "burnchain.entry": 100, "material": 40, "material.again": 40, "material.T": 500, "nucDir.natural": 200, "nucDir.natural-mass": 60, "nucDir.members": 100, "encoding.mcc": 500, "burnchain.file-vs-live": 30, "burnchain.file-product": 100, "relabel.step": 30, "relabel.lookup": 120000, "relabel.material": 600},
          "thorough": {"nuclide": 4000, "element": 100, "burnchain.entry": 100, "material": 40, "material.again": 40, "material.T": 5000, "nucDir.natural": 200, "nucDir.natural-mass": 60, "nucDir.members": 100, "encoding.mcc": 500, "burnchain.file-vs-live": 30, "burnchain.file-product": 100, "relabel.step": 400, "relabel.lookup": 1500000, "relabel.material": 8000}}

SYMBOLS = ("H HE LI BE B C N O F NE NA MG AL SI P S CL AR K CA SC TI V CR MN FE CO NI CU ZN GA GE AS SE BR KR RB SR Y ZR NB MO TC RU RH PD "
           "AG CD IN SN SB TE I XE CS BA LA CE PR ND PM SM EU GD TB DY HO ER TM YB LU HF TA W RE OS IR PT AU HG TL PB BI PO AT RN FR RA AC TH "
           "PA U NP PU AM CM BK CF ES FM MD NO LR RF DB SG BH HS MT DS RG CN NH FL MC LV TS OG").split()
ZOF = {s: i + 1 for i, s in enumerate(SYMBOLS)}
MCC_LABELS_NOT_OF_THE_PATTERN = {("mcc2", "HYDRGN")}  # MC2-2 names hydrogen-1 by word; every other isotope label follows SYMBOL[-]A[M]
ABSTRACT = {"Material", "Fluid", "SimpleSolid", "FuelMaterial", "_Mixture", "Water"}
NO_COMPOSITION_BY_DESIGN = {"Custom", "Void"}


def plan(tier, seed):
    nT = 25 if tier == "quick" else 400
    return [{"name": "nuclides", "kind": "nuclides"}, {"name": "elements", "kind": "elements"},
            {"name": "burnchain", "kind": "burnchain"}, {"name": "materials", "kind": "materials", "nT": nT},
            {"name": "relabel", "kind": "relabel", "n": 30 if tier == "quick" else 400}]


def run_shard(spec, rec):
    rng = random.Random(spec["rng"])
    {"nuclides": do_nuclides, "elements": do_elements, "burnchain": do_burnchain, "materials": do_materials, "relabel": do_relabel}[spec["kind"]](spec, rec, rng)


# ----------------------------------------------------------------------------- independent encoders
def enc_name(sym, a, s):
    return "%s%d%s" % (sym, a, ["", "M", "M2", "M3"][s])


def enc_label(sym, a, s):
    two = (a % (10 ** (4 - len(sym)))) // 10
    last = ("0123456789" "ABCDEFGHIJ" "KLMNOPQRST" "UVWXYZabcd")[(a % 10) + 10 * s]
    return "%s%d%s" % (sym, two, last)


def enc_mcnp(z, a, s):
    if (z, a, s) == (95, 242, 1):  # documented exception: the common metastable state carries the plain id ...
        return "95242"
    if (z, a, s) == (95, 242, 0):  # ... and the ground state the first metastable slot
        return "95642"
    return "%d%03d" % (z, a + (300 + 100 * s if s > 0 else 0))


def enc_aaazzzs(z, a, s):
    return "%d%03d%d" % (a, z, s)


def do_nuclides(spec, rec, rng):
    from armi.nucDirectory import elements, nuclideBases as nb

    idx = {
        "name": (nb.byName, lambda n: n.name),
        "label": (nb.byLabel, lambda n: n.label),
        "dbname": (nb.byDBName, lambda n: n.getDatabaseName()),
        "mcc2": (nb.byMcc2Id, lambda n: n.getMcc2Id()),
        "mcc3-VII0": (nb.byMcc3IdEndfbVII0, lambda n: n.getMcc3IdEndfbVII0()),
        "mcc3-VII1": (nb.byMcc3IdEndfbVII1, lambda n: n.getMcc3IdEndfbVII1()),
        "mcc3": (nb.byMcc3Id, lambda n: n.getMcc3Id()),
        "mcnp": (nb.byMcnpId, lambda n: n.getMcnpId() if isinstance(n, nb.IMcnpNuclide) else None),
        "aaazzzs": (nb.byAAAZZZSId, lambda n: n.getAAAZZZSId() if isinstance(n, nb.NuclideBase) else None),
    }
    owners = {k: {} for k in idx}
    mism = []
    insts = list(nb.instances)
    rec.note("n_instances", len(insts))
    if len(set(map(id, insts))) != len(insts):
        rec.violation("nuclides/duplicate-instance", "instances lists an object twice", {})
    for n in insts:
        rec.hit("nuclide")
        w = {"nuclide": repr(n)[:160]}
        nids = 0
        for kind, (table, getter) in idx.items():
            try:
                ident = getter(n)
            except Exception as e:
                rec.crash("identifier/" + kind, e, w)
                continue
            if ident in (None, ""):
                continue
            nids += 1
            rec.hit("lookup." + kind)
            owners[kind].setdefault(ident, []).append(n.name)
            got = table.get(ident)
            if got is not n:
                mism.append((kind, ident, n.name, getattr(got, "name", got)))
        # identifiers encode Z, A, state
        if isinstance(n, nb.NuclideBase):
            sym = n.element.symbol
            z_indep = ZOF.get(sym)
            if z_indep != n.z:
                rec.violation("encoding/symbol-z", "%s: symbol %s is Z=%s in the periodic table, nuclide says %s" % (n.name, sym, z_indep, n.z), w)
            exp_name = enc_name(sym, n.a, n.state)
            if n.name != exp_name and not (n.name == "AM242G" and (n.z, n.a, n.state) == (95, 242, 0)):
                rec.violation("encoding/name", "%s: name should encode (%s,%d,%d) as %s" % (n.name, sym, n.a, n.state, exp_name), w)
            if n.label != enc_label(sym, n.a, n.state):
                rec.violation("encoding/label", "%s: label %r, expected %r" % (n.name, n.label, enc_label(sym, n.a, n.state)), w)
            if n.getMcnpId() != enc_mcnp(n.z, n.a, n.state):
                rec.violation("encoding/mcnp", "%s: MCNP id %r, expected %r" % (n.name, n.getMcnpId(), enc_mcnp(n.z, n.a, n.state)), w)
            if n.getAAAZZZSId() != enc_aaazzzs(n.z, n.a, n.state):
                rec.violation("encoding/aaazzzs", "%s: AAAZZZS id %r, expected %r" % (n.name, n.getAAAZZZSId(), enc_aaazzzs(n.z, n.a, n.state)), w)
            if n.getDatabaseName() != "n" + n.name.capitalize():
                rec.violation("encoding/dbname", "%s: db name %r" % (n.name, n.getDatabaseName()), w)
            # the MC2-2 / MC2-3 library labels encode the same (symbol, A, isomer) - decoded here with a pattern written from the label
            # conventions (SYMBOL[-]A[M] + padding + library suffix), not with armi's own naming helpers
            for kind, getter in (("mcc2", n.getMcc2Id), ("mcc3-VII0", n.getMcc3IdEndfbVII0), ("mcc3-VII1", n.getMcc3IdEndfbVII1)):
                try:
                    lab = getter()
                except Exception:
                    lab = None
                if not lab:
                    continue
                rec.hit("encoding.mcc")
                if (kind, lab) in MCC_LABELS_NOT_OF_THE_PATTERN:
                    rec.skip("library label outside the SYMBOL-A pattern (%s %r): listed exception, identity/uniqueness still judged" % (kind, lab))
                    continue
                mm = re.fullmatch(r"([A-Z]{1,2})-?(\d{1,3})(M?)[ _]*[0-9A-Z]{0,2}", lab)
                # six-character labels of isomers with A >= 100 keep the last two digits of A ("AG10M7" = Ag-110m)
                a_ok = mm is not None and (int(mm.group(2)) == n.a or (n.state > 0 and n.a >= 100 and mm.group(2) == "%02d" % (n.a % 100)))
                if not mm or mm.group(1) != sym or not a_ok or bool(mm.group(3)) != (n.state > 0):
                    rec.violation("encoding/%s" % kind, "%s: %s label %r does not encode (%s, A=%d, state=%d)" % (n.name, kind, lab, sym, n.a, n.state), w)
            # decode the name back (regex) and compare
            m = re.fullmatch(r"([A-Z]{1,2})(\d+)(M\d?|G)?", n.name)
            if not m or ZOF.get(m.group(1)) != n.z or int(m.group(2)) != n.a:
                rec.violation("encoding/name-decode", "%s does not decode to Z=%d A=%d" % (n.name, n.z, n.a), w)
            else:
                st = {None: 0, "M": 1, "M2": 2, "M3": 3, "G": 0}[m.group(3)]
                if st != n.state:
                    rec.violation("encoding/name-decode-state", "%s decodes to state %d, nuclide says %d" % (n.name, st, n.state), w)
            if not (n.weight > 0 and math.isfinite(n.weight)) or not (0.0 <= n.abundance <= 1.0) or not (n.halflife >= 0):
                rec.violation("nuclide/bad-data", "%s weight %r abundance %r halflife %r" % (n.name, n.weight, n.abundance, n.halflife), w)
            if abs(n.weight - n.a) > 0.6:
                rec.violation("nuclide/weight-vs-a", "%s: atomic weight %r far from mass number %d" % (n.name, n.weight, n.a), w)
        elif isinstance(n, nb.NaturalNuclideBase):
            if n.name != n.element.symbol or n.getMcnpId() != "%d000" % n.z:
                rec.violation("encoding/natural", "%s: natural nuclide name/MCNP id (%r) inconsistent with element %s" % (n.name, n.getMcnpId(), n.element.symbol), w)
        # element membership
        if getattr(n, "element", None) is not None:  # includes the dummy / lumped nuclides of the pseudo-elements DP and LP
            rec.hit("nuclide.element")
            if n.element.z != n.z:
                rec.violation("element/z-mismatch", "%s: element z %d != nuclide z %d" % (n.name, n.element.z, n.z), w)
            if not any(m is n for m in n.element.nuclides):
                rec.violation("element/not-listed", "%s not in its element's nuclide list" % n.name, w)
            if elements.byZ.get(n.z) is not n.element:
                rec.violation("element/byZ", "%s: elements.byZ[%d] is not its element" % (n.name, n.z), w)
        rec.case(["nuclide", n.name], nontrivial=nids > 0, sample={"nuclide": n.name, "label": n.label, "ids": nids} if n.name in ("U235", "AM242M") else None)
    # uniqueness of identifiers within each kind (byMcc3Id is documented as an alias of the VII.1 table)
    shared = set()
    for kind, table in owners.items():
        for ident, names in table.items():
            if len(set(names)) > 1:
                shared.add((kind, ident))
                if kind == "mcc3":
                    continue
                rec.violation("shared-id/%s/%s" % (kind, ident), "%s identifier %r is reported by %s" % (kind, ident, sorted(set(names))), {"kind": kind, "id": ident, "nuclides": sorted(set(names))})
    for kind, ident, name, got in mism:
        if (kind, ident) in shared:
            continue  # consequence of the shared identifier reported above
        rec.violation("lookup-returns-other/%s/%s" % (kind, name), "%s index [%r] returns %s, not %s" % (kind, ident, got, name), {"kind": kind, "id": ident})
    # index entries must point at registered nuclides (no stale objects)
    live = set(map(id, insts))
    for kind, (table, _g) in idx.items():
        for key, val in table.items():
            rec.hit("index.entry")
            if id(val) not in live:
                rec.violation("index/stale-entry/" + kind, "%s index key %r -> object not in instances" % (kind, key), {"kind": kind, "key": key})
    # nucDir helper functions agree with the directory
    try:
        from armi.nucDirectory import nucDir

        for n in rng.sample(insts, 300):
            rec.hit("nucDir")
            if nucDir.getNuclide(n.name) is not n and nb.byName[n.name] is n:
                rec.violation("nucDir/getNuclide", "nucDir.getNuclide(%r) is not the directory's nuclide" % n.name, {})
            if isinstance(n, nb.NuclideBase) and nucDir.getAtomicWeight(n.name) != n.weight:
                rec.violation("nucDir/getAtomicWeight", "nucDir.getAtomicWeight(%r)" % n.name, {})
    except Exception as e:
        rec.crash("nucDir", e, {})


def do_elements(spec, rec, rng):
    from armi.nucDirectory import elements, nuclideBases as nb

    for z, e in sorted(elements.byZ.items()):
        rec.hit("element")
        w = {"element": repr(e)}
        if e.z != z or elements.bySymbol.get(e.symbol) is not e or elements.byName.get(e.name) is not e:
            rec.violation("element/index", "element indices disagree for %r" % e, w)
        if z > 118:
            rec.skip("pseudo-element %s (Z=%d) used for dummy/lumped nuclides: periodic-table symbol not judged" % (e.symbol, z))
        elif ZOF.get(e.symbol) != z:
            rec.violation("element/symbol", "element %s has Z=%d, periodic table says %s" % (e.symbol, z, ZOF.get(e.symbol)), w)
        for n in e.nuclides:
            if n.z != z or n.element is not e:
                rec.violation("element/foreign-nuclide", "%s lists %s (z=%s)" % (e.symbol, n.name, n.z), w)
        if len(set(map(id, e.nuclides))) != len(e.nuclides):
            rec.violation("element/duplicate-nuclide", "%s lists a nuclide twice" % e.symbol, w)
        iso = [n for n in e.nuclides if isinstance(n, nb.NuclideBase)]
        tot = sum(n.abundance for n in iso)
        nat = e.getNaturalIsotopics()
        if set(map(id, nat)) != set(id(n) for n in iso if n.abundance > 0):
            rec.violation("element/natural-isotopics", "%s.getNaturalIsotopics() != isotopes with abundance>0" % e.symbol, w)
        if tot != 0.0 and abs(tot - 1.0) > TOLERANCES["abundance_sum"]:
            rec.violation("element/abundance-sum/%s" % e.symbol, "abundances of %s sum to %r" % (e.symbol, tot), dict(w, abundances={n.name: n.abundance for n in iso if n.abundance}))
        if e.isNaturallyOccurring() != (tot > 0):
            rec.violation("element/naturally-occurring", "%s.isNaturallyOccurring()=%s, abundance sum %r" % (e.symbol, e.isNaturallyOccurring(), tot), w)
        if tot > 0:
            sw = sum(n.weight * n.abundance for n in iso) / tot
            if e.standardWeight is None or abs(e.standardWeight - sw) > 1e-9 * sw:
                rec.violation("element/standard-weight", "%s standard weight %r, abundance-weighted mean %r" % (e.symbol, e.standardWeight, sw), w)
            if e.symbol not in nb.byName:
                rec.violation("element/no-natural-nuclide", "naturally occurring %s has no natural nuclide base" % e.symbol, w)
        # the nucDir helper views of the same data, judged against a naive walk over the registered nuclides
        try:
            from armi.nucDirectory import nucDir

            walk = [n for n in nb.instances if isinstance(n, nb.NuclideBase) and n.z == z]
            want = sorted((n.a, n.abundance) for n in walk if n.abundance > 0)
            for how, got in (("symbol", nucDir.getNaturalIsotopics(elementSymbol=e.symbol)), ("z", nucDir.getNaturalIsotopics(z=z))):
                rec.hit("nucDir.natural")
                if sorted(got) != want:
                    rec.violation("nucDir/natural-isotopics", "nucDir.getNaturalIsotopics(%s) of %s is %r, the directory's nuclides with an abundance are %r" % (how, e.symbol, sorted(got), want), w)
            if want:
                rec.hit("nucDir.natural-mass")
                gm = sorted(nucDir.getNaturalMassIsotopics(elementSymbol=e.symbol))
                tm = sum(a * f for a, f in want)
                wm = sorted((a, a * f / tm) for a, f in want)
                if len(gm) != len(wm) or any(ga != wa or abs(gf - wf) > 1e-12 for (ga, gf), (wa, wf) in zip(gm, wm)) or abs(sum(f for _a, f in gm) - 1.0) > 1e-12:
                    rec.violation("nucDir/natural-mass-isotopics", "nucDir.getNaturalMassIsotopics(%s) is %r, A-weighted abundances give %r" % (e.symbol, gm, wm), w)
            rec.hit("nucDir.members")
            if set(map(id, nucDir.getNuclides(elementSymbol=e.symbol))) != set(id(n) for n in nb.instances if getattr(n, "z", None) == z and getattr(n, "element", None) is e):
                rec.violation("nucDir/element-members", "nucDir.getNuclides(elementSymbol=%r) differs from the registered nuclides of that element" % e.symbol, w)
        except Exception as ex:
            rec.crash("nucDir-element-helpers", ex, w)
        rec.case(["element", z], nontrivial=bool(iso), sample={"element": e.symbol, "isotopes": len(iso), "abundance_sum": tot} if z in (26, 92) else None)


def do_burnchain(spec, rec, rng):
    from armi.nucDirectory import nuclideBases as nb, transmutations

    if not nb.burnChainImposed:
        rec.violation("burnchain/not-imposed", "burn chain was not imposed by the standard bootstrap", {})
    nwith = 0
    for n in nb.instances:
        entries = list(n.trans) + list(n.decays)
        if entries:
            nwith += 1
        for t in entries:
            rec.hit("burnchain.entry")
            w = {"parent": n.name, "entry": repr(t)[:200]}
            if t.parent is not n:
                rec.violation("burnchain/parent", "entry of %s has parent %s" % (n.name, getattr(t.parent, "name", None)), w)
            if not t.productNuclides:
                rec.violation("burnchain/no-products", "entry without products", w)
            for p in t.productNuclides:
                if p not in nb.byName:
                    rec.violation("burnchain/unknown-product/%s" % p, "%s -> product %r is not a known nuclide" % (n.name, p), w)
            if t.productParticle is not None and t.productParticle not in nb.byName:
                rec.violation("burnchain/unknown-particle", "%s particle %r unknown" % (n.name, t.productParticle), w)
            if not (isinstance(t.branch, (int, float)) and 0.0 <= t.branch <= 1.0):
                rec.violation("burnchain/branch-out-of-range", "%s branch %r not in [0,1]" % (n.name, t.branch), w)
            if isinstance(t, transmutations.DecayMode):
                if t.type not in transmutations.DECAY_MODES or not (t.halfLifeInSeconds > 0) or not (t.decay >= 0 and math.isfinite(t.decay)):
                    rec.violation("burnchain/decay-data", "%s decay type %r half-life %r constant %r" % (n.name, t.type, t.halfLifeInSeconds, t.decay), w)
            elif t.type not in transmutations.TRANSMUTATION_TYPES:
                rec.violation("burnchain/transmutation-type", "%s type %r" % (n.name, t.type), w)
            rec.case(["burn", n.name, t.type, list(t.productNuclides)], sample=w if n.name == "U238" and t.type == "nGamma" else None)
    rec.note("nuclides_with_burn_data", nwith)
    # every entry NAMED IN THE BURN-CHAIN FILE is present in the live directory with its products, type and branch (a loader that drops
    # alternate products, branching decays or whole entries leaves the live objects self-consistent, so judge against the file itself)
    try:
        import os

        from armi import context
        from ruamel.yaml import YAML

        with open(os.path.join(context.RES, "burn-chain.yaml")) as f:
            raw = YAML(typ="safe").load(f)
        for parent, infos in raw.items():
            want = []
            for info in infos:
                (kind, d), = info.items()
                if kind in ("transmutation", "decay"):
                    want.append((kind, str(d["type"]), tuple(str(x) for x in d["products"]), float(d["branch"])))
                    for prod in d["products"]:
                        rec.hit("burnchain.file-product")
                        if str(prod) not in nb.byName:
                            rec.violation("burnchain/file-names-unknown-product", "%s: burn-chain.yaml names product %r, which is not a nuclide of the directory" % (parent, prod), {"parent": parent})
            n = nb.byName.get(parent)
            if n is None:
                rec.violation("burnchain/file-names-unknown-parent", "burn-chain.yaml has an entry for %r, not a nuclide of the directory" % parent, {"parent": parent})
                continue
            got = [("transmutation", t.type, tuple(t.productNuclides), float(t.branch)) for t in n.trans] + [("decay", t.type, tuple(t.productNuclides), float(t.branch)) for t in n.decays]
            rec.hit("burnchain.file-vs-live")
            if sorted(got) != sorted(want):
                missing = [x for x in want if x not in got]
                extra = [x for x in got if x not in want]
                rec.violation("burnchain/live-differs-from-file", "%s: burn-chain.yaml names %d entries, the directory holds %d; only in the file %s, only in the directory %s" % (parent, len(want), len(got), missing[:3], extra[:3]), {"parent": parent})
        for n in nb.instances:
            if (n.trans or n.decays) and n.name not in raw:
                rec.violation("burnchain/live-entry-not-in-file", "%s has burn data but no entry in burn-chain.yaml" % n.name, {"parent": n.name})
    except Exception as e:
        rec.crash("burnchain-file-comparison", e, {})


def trange(spec_range, units, n):
    lo, hi = spec_range
    return [(lo + (hi - lo) * i / (n - 1), units) for i in range(n)]


def do_materials(spec, rec, rng):
    from armi import materials
    from armi.nucDirectory import nuclideBases as nb

    nT = spec["nT"]
    classes = list(materials.iterAllMaterialClassesInNamespace(materials))
    rec.note("material_classes", sorted(c.__name__ for c in classes))
    for cls in classes:
        name = cls.__name__
        if name in ABSTRACT:
            rec.skip("abstract base class " + name)
            continue
        rec.hit("material")
        w = {"material": name}
        try:
            m = cls()
        except Exception as e:
            rec.crash("material-instantiate/" + name, e, w)
            continue
        if name in NO_COMPOSITION_BY_DESIGN:
            rec.case(["material", name, "instantiate-only"], nontrivial=False)
            continue
        mf = dict(m.massFrac)
        for nuc, frac in mf.items():
            if nuc not in nb.byName:
                rec.violation("material/unknown-nuclide/%s" % name, "%s refers to unknown nuclide %r" % (name, nuc), w)
            if not (isinstance(frac, (int, float)) and math.isfinite(frac) and frac >= 0):
                rec.violation("material/bad-fraction/%s" % name, "%s mass fraction of %s is %r" % (name, nuc, frac), w)
        tot = sum(mf.values())
        if abs(tot - 1.0) > TOLERANCES["massfrac_sum"]:
            rec.violation("material/massfrac-sum/%s" % name, "%s mass fractions sum to %r (%d nuclides)" % (name, tot, len(mf)), dict(w, massFrac=mf))
        # "every library material can be instantiated": every time, not only the first time in a process - a second, third and a
        # duplicated instance hold the same composition and density as the first (shared mutable class state would show here)
        try:
            rec.hit("material.again")
            for how, mk in (("second instance", cls), ("third instance", cls), ("duplicate()", m.duplicate)):
                m_ = mk()
                if dict(m_.massFrac) != mf or m_.refDens != m.refDens:
                    diff = sorted(k for k in set(mf) | set(m_.massFrac) if mf.get(k) != m_.massFrac.get(k))
                    rec.violation("material/instance-differs-from-first/%s" % name, "%s: the %s differs from the first instance in %s (sum of fractions %r vs %r; refDens %r vs %r)" % (
                        name, how, diff[:5], sum(m_.massFrac.values()), tot, m_.refDens, m.refDens), dict(w, how=how))
                    break
        except Exception as e:
            rec.crash("material-instantiate-again/" + name, e, w)
        try:
            nucs = m.getNuclides()
            if sorted(nucs) != sorted(mf):
                rec.violation("material/getNuclides/%s" % name, "getNuclides() differs from massFrac keys", w)
        except Exception:
            pass
        pvt = getattr(m, "propertyValidTemperature", {}) or {}
        dens_rng = pvt.get("density") or pvt.get("pseudoDensity")
        exp_rng = None
        for key in ("linear expansion percent", "linear expansion", "thermal expansion", "cumulative linear expansion"):
            if key in pvt:
                exp_rng = pvt[key]
                break
        temps_d = trange(dens_rng[0], dens_rng[1], nT) if dens_rng else (trange(exp_rng[0], exp_rng[1], nT) if exp_rng else None)
        temps_e = trange(exp_rng[0], exp_rng[1], nT) if exp_rng else None
        stated = temps_d is not None
        if temps_d is None:
            # no range stated (UZr, MOX, Graphite, Inconel, ... ~20 classes): judged over the temperatures the shipped inputs build blocks at
            temps_d = [(25.0, "C"), (100.0, "C"), (300.0, "C"), (450.0, "C"), (600.0, "C")]
        if temps_e is None:
            temps_e = temps_d

        def kw(T, u):
            return {"Tk": T} if u == "K" else {"Tc": T}

        for T, u in temps_d:
            rec.hit("material.T")
            where = "range-min" if T == temps_d[0][0] else "range-max" if T == temps_d[-1][0] else "inside-range"
            for fn in ("density", "pseudoDensity"):
                try:
                    d = getattr(m, fn)(**kw(T, u))
                    ok = isinstance(d, (int, float)) and not isinstance(d, complex) and math.isfinite(d) and d > 0
                    mech = "complex" if isinstance(d, complex) else "zero" if d == 0 else "nonpositive-or-nonfinite"
                    why = "%s.%s(%s=%r) = %r is not finite positive" % (name, fn, "Tk" if u == "K" else "Tc", T, d)
                except Exception as e:
                    ok, why, mech = False, "%s.%s(%s=%r) raised %s: %s" % (name, fn, "Tk" if u == "K" else "Tc", T, type(e).__name__, str(e)[:100]), "raises-" + type(e).__name__
                if not ok:
                    if stated:
                        rec.violation("material/%s/%s/%s%s" % (fn, name, mech, "" if mech == "zero" else "-at-" + where), why, dict(w, T=T, units=u))
                    else:
                        rec.violation("material/%s/%s/%s/no-stated-range" % (fn, name, mech), why + " (the class states no validity range; judged at 25-600 C)", dict(w, T=T, units=u))
                    break
        for T, u in temps_e:
            rec.hit("material.T")
            try:
                e_ = m.linearExpansionPercent(**kw(T, u))
                ok = isinstance(e_, (int, float)) and math.isfinite(e_)
                why = "%s.linearExpansionPercent(%r %s) = %r not finite" % (name, T, u, e_)
            except Exception as e:
                ok, why = False, "%s.linearExpansionPercent(%r %s) raised %s: %s" % (name, T, u, type(e).__name__, str(e)[:100])
            if not ok:
                rec.violation("material/expansion/%s%s" % (name, "" if exp_rng else "/no-stated-range"), why, dict(w, T=T, units=u))
                break
        rec.case(["material", name, nT], sample={"material": name, "massfrac_sum": tot, "density_range": str(dens_rng), "expansion_range": str(exp_rng)} if name in ("HT9", "UZr") else None)


# ----------------------------------------------------------------------------- the directory after labels were changed
def do_relabel(spec, rec, rng):
    """changeLabel() is the directory's one public mutator (cross-section libraries with their own labels call it through
    XSNuclide.updateBaseNuclide). After any sequence of relabels - to a fresh label, to the label the nuclide already has, and
    back - every nuclide is still retrieved by the label it has, no two share one, and every material can still be instantiated
    with the composition it had before."""
    from armi import materials
    from armi.nucDirectory import nuclideBases as nb

    classes = [c for c in materials.iterAllMaterialClassesInNamespace(materials) if c.__name__ not in ABSTRACT]
    first = {}
    for cls in classes:
        try:
            first[cls.__name__] = dict(cls().massFrac)
        except Exception:
            pass  # judged by the materials shard
    named = sorted({n for mf in first.values() for n in mf if n in nb.byName})
    everyone = list(nb.instances)
    pool = [nb.byName[n] for n in rng.sample(named, min(len(named), spec["n"] // 2))] + rng.sample(everyone, spec["n"] - spec["n"] // 2)
    for x in ("U235", "U238"):  # materials look these up by label
        pool.insert(rng.randrange(len(pool)), nb.byName[x])
    rec.note("relabelled", sorted({n.name for n in pool})[:80])
    serial = [0]

    def judge(n, step, w):
        rec.hit("relabel.step")
        seen = {}
        for m in everyone:
            rec.hit("relabel.lookup")
            got = nb.byLabel.get(m.label)
            if got is not m:
                key = "relabel/label-lookup-lost" if got is None else "relabel/label-lookup-returns-another-nuclide"
                rec.violation(key + ("/the-relabelled-nuclide" if m is n else "/a-bystander"), "after %s: byLabel[%r] is %r, the nuclide carrying that label is %r" % (step, m.label, got, m), w)
                break
            if m.label in seen:
                rec.violation("relabel/two-nuclides-share-a-label", "after %s: %r and %r both carry label %r" % (step, seen[m.label], m, m.label), w)
                break
            seen[m.label] = m
        if nb.byName.get(n.name) is not n:
            rec.violation("relabel/name-lookup-changed", "after %s: byName[%r] is %r" % (step, n.name, nb.byName.get(n.name)), w)
        for cls in (classes if rng.random() < .4 else rng.sample(classes, 12)):
            name = cls.__name__
            if name not in first:
                continue
            rec.hit("relabel.material")
            try:
                mf = dict(cls().massFrac)
            except Exception as e:
                rec.violation("relabel/material-cannot-be-instantiated/%s" % type(e).__name__, "after %s: %s() raised %s: %s" % (step, name, type(e).__name__, str(e)[:120]), dict(w, material=name))
                break
            if mf != first[name]:
                rec.violation("relabel/material-composition-changed", "after %s: %s() has another composition than before (%s)" % (step, name, sorted(set(mf) ^ set(first[name]))[:6]), dict(w, material=name))
                break

    for i, n in enumerate(pool):
        old = n.label
        serial[0] += 1
        fresh = "q%03d" % serial[0]
        assert fresh not in nb.byLabel
        plan_ = rng.choice([[old], [fresh, old], [fresh, fresh, old], [old, fresh, old], [fresh]])
        w = {"nuclide": n.name, "label": old, "relabels": plan_}
        done = []
        for new in plan_:
            try:
                nb.changeLabel(n, new)
            except Exception as e:
                rec.crash("relabel/changeLabel", e, w)
                break
            done.append(new)
            if n.label != new:
                rec.violation("relabel/label-not-set", "changeLabel(%s, %r) left label %r" % (n.name, new, n.label), w)
            judge(n, "changeLabel(%s): %s" % (n.name, " -> ".join([old] + done)), w)
        rec.case(["relabel", n.name, len(plan_), plan_[-1] == old, plan_[0] == old], nontrivial=True, sample=w if i < 3 else None)
