"""Harness-side method wrapping (no edits to /repo): pre/post monitors with hit counters."""
import collections
import functools

HITS = collections.Counter()
_installed = []


def wrap(owner, name, pre=None, post=None, onerror=None, key=None):
    """Replace owner.name by a wrapper calling pre(args,kw)->token, orig, post(token,result,args,kw).

    Monitors run outside armi's own control flow; exceptions they raise propagate to the workload
    (they are verdicts, not armi errors).  Returns the original for unwrap().
    """
    orig = owner.__dict__[name] if isinstance(owner, type) and name in owner.__dict__ else getattr(owner, name)
    raw = orig
    isstatic = isinstance(raw, staticmethod)
    isclsm = isinstance(raw, classmethod)
    fn = raw.__func__ if (isstatic or isclsm) else raw
    k = key or "%s.%s" % (getattr(owner, "__name__", str(owner)), name)

    @functools.wraps(fn)
    def wrapper(*a, **kw):
        HITS[k] += 1
        tok = pre(a, kw) if pre else None
        try:
            res = fn(*a, **kw)
        except BaseException as e:
            if onerror:
                onerror(tok, e, a, kw)
            raise
        if post:
            post(tok, res, a, kw)
        return res

    wrapper.__verif_orig__ = raw
    new = staticmethod(wrapper) if isstatic else classmethod(wrapper) if isclsm else wrapper
    setattr(owner, name, new)
    _installed.append((owner, name, raw))
    return raw


def unwrap_all():
    while _installed:
        owner, name, raw = _installed.pop()
        setattr(owner, name, raw)
