"""C03 - thermal expansion conserves mass per unit height and scales dimensions.

Workload: every 2-D shaped component class x every solid library material x temperature paths inside the
material's stated range.  Monitor: a hook on the real ``Component.setTemperature`` records an event log
(T before/after, number densities, dimensions, area); an offline checker applies the closed-form laws with
the expansion factor f = (100+p(T))/(100+p(T0)) taken from the material's own linearExpansionPercent,
evaluated by the harness (never through the component methods under test).
"""
import math
import random

PROP = "C03"
LEVEL = "exploration"
RULE = (
    "cross product of every ShapedComponent subclass with is3D False (discovered in ComponentType.TYPES) x every concrete material class in "
    "armi.materials (solids judged by the laws, fluids/custom judged for unchanged dimensions) x temperature paths of 1-8 steps inside the "
    "stated validity range; plus linked-dimension configurations (pairs and chains of 3, in a block and free). distinct = (shape, material, "
    "path length, link config); non-trivial = the material's expansion differs between two visited temperatures."
)
TOLERANCES = {"law_rel": 1e-10, "path_rel": 1e-10, "readback_rel": 1e-12}
EXHAUSTIVE = {"quick": False, "thorough": True}
EXHAUSTIVE_PART = "thorough: every (2-D shape class x material class) pair at least 3 paths; quick: every pair once"
FLOORS = {"quick": {"law.area": 400, "law.ndens": 400, "law.dims": 400, "law.path": 400, "law.link": 100, "law.hotset": 200, "law.fluid": 20, "hook:Component.setTemperature": 1000},
          "thorough": {"law.area": 4000, "law.ndens": 4000, "law.dims": 4000, "law.path": 4000, "law.link": 1000, "law.hotset": 2000, "law.fluid": 200, "hook:Component.setTemperature": 10000}}
NSHARDS = 12


def plan(tier, seed):
    return [{"name": "x%d" % i, "shard": i, "reps": 2 if tier == "quick" else 20, "links": 40 if tier == "quick" else 400} for i in range(NSHARDS)]


def shapes():
    from armi.reactor.components import ComponentType
    from armi.reactor.components.component import Component

    out = []
    for name, cls in sorted(ComponentType.TYPES.items()):
        if getattr(cls, "is3D", True) or not cls.THERMAL_EXPANSION_DIMS:
            continue
        out.append((name, cls))
    return out


def dims_for(name, rng):
    """Valid cold dimensions for each 2-D shape (positive area)."""
    u = rng.uniform
    if name == "circle":
        od = u(.2, 3)
        return {"od": od, "id": rng.choice([0.0, od * u(.1, .9)]), "mult": rng.choice([1, 7, 19, 271])}
    if name == "hexagon":
        op = u(1, 20)
        return {"op": op, "ip": rng.choice([0.0, op * u(.1, .95)]), "mult": rng.choice([1, 3])}
    if name == "rectangle":
        lo, wo = u(1, 10), u(1, 10)
        return {"lengthOuter": lo, "lengthInner": lo * u(0, .9), "widthOuter": wo, "widthInner": wo * u(0, .9), "mult": rng.choice([1, 4])}
    if name == "solidrectangle":
        return {"lengthOuter": u(1, 10), "widthOuter": u(1, 10), "mult": rng.choice([1, 2])}
    if name == "square":
        wo = u(1, 10)
        return {"widthOuter": wo, "widthInner": wo * u(0, .9), "mult": rng.choice([1, 9])}
    if name == "triangle":
        return {"base": u(.5, 5), "height": u(.5, 5), "mult": rng.choice([1, 6])}
    if name == "helix":
        od = u(.05, .3)
        return {"od": od, "id": rng.choice([0.0, od * u(.1, .8)]), "axialPitch": u(10, 40), "helixDiameter": u(.5, 2), "mult": rng.choice([1, 169])}
    if name == "hexholedcircle":
        od = u(2, 10)
        return {"od": od, "holeOP": od * u(.1, .6), "mult": 1}
    if name == "holedhexagon":
        op = u(5, 20)
        n = rng.choice([1, 7, 19])
        return {"op": op, "holeOD": op * u(.02, .12), "nHoles": n, "mult": 1}
    if name == "holedrectangle":
        lo, wo = u(2, 10), u(2, 10)
        return {"lengthOuter": lo, "widthOuter": wo, "holeOD": min(lo, wo) * u(.1, .8), "mult": 1}
    if name == "holedsquare":
        wo = u(2, 10)
        return {"widthOuter": wo, "holeOD": wo * u(.1, .8), "mult": 1}
    return None


def material_classes():
    from armi import materials

    skip = {"Material", "Fluid", "SimpleSolid", "FuelMaterial", "_Mixture", "Water"}
    return [c for c in materials.iterAllMaterialClassesInNamespace(materials) if c.__name__ not in skip]


def temp_range_C(mat):
    pvt = getattr(mat, "propertyValidTemperature", {}) or {}
    for key in ("linear expansion percent", "linear expansion", "thermal expansion", "cumulative linear expansion"):
        if key in pvt:
            (lo, hi), u = pvt[key]
            if u == "K":
                lo, hi = lo - 273.15, hi - 273.15
            lo, hi = max(lo, -200.0), hi
            return lo + 0.01 * (hi - lo), hi - 0.01 * (hi - lo)
    return 20.0, 600.0


def pct(mat, T):
    return mat.linearExpansionPercent(Tc=T)


LOG = []


def install_hook():
    from armi.reactor.components.component import Component
    from vlib import hooks

    def pre(a, kw):
        c = a[0]
        return (c.temperatureInC, dict(c.p.numberDensities))

    def post(tok, res, a, kw):
        c = a[0]
        LOG.append((id(c), tok[0], c.temperatureInC, tok[1], dict(c.p.numberDensities)))

    hooks.wrap(Component, "setTemperature", pre=pre, post=post)


def relclose(a, b, rel):
    return abs(a - b) <= rel * max(abs(a), abs(b), 1e-300)


def run_shard(spec, rec):
    from armi.materials import material as matmod
    from armi.materials import custom
    from armi.reactor import blocks

    install_hook()
    rng0 = random.Random(spec["rng"])
    shp = shapes()
    mats = material_classes()
    rec.note("shapes", [s for s, _ in shp])
    rec.note("n_materials", len(mats))
    pairs = [(s, m) for s in shp for m in mats]
    mine = [p for i, p in enumerate(pairs) if i % NSHARDS == spec["shard"]]
    for (sname, scls), mcls in mine:
        for rep in range(spec["reps"]):
            rng = random.Random("%s:%s:%s:%d" % (spec["rng"], sname, mcls.__name__, rep))
            one_component(rec, rng, sname, scls, mcls, matmod, custom)
    for i in range(spec["links"]):
        rng = random.Random("%s:link:%d" % (spec["rng"], i))
        one_link_case(rec, rng, mats, matmod, custom, blocks)


def is_fluidlike(m, matmod, custom):
    return isinstance(m, (matmod.Fluid, custom.Custom))


def one_component(rec, rng, sname, scls, mcls, matmod, custom):
    mname = mcls.__name__
    dims = dims_for(sname, rng)
    if dims is None:
        rec.skip("no dimension generator for shape " + sname)
        return
    try:
        probe = mcls()
    except Exception as e:
        rec.skip("material %s does not instantiate (judged in C19)" % mname)
        return
    lo, hi = temp_range_C(probe)
    Tin = rng.uniform(lo, lo + .3 * (hi - lo))
    Thot = rng.choice([Tin, rng.uniform(lo, hi)])
    w = {"shape": sname, "material": mname, "dims": dims, "Tinput": Tin, "Thot": Thot}
    try:
        c = scls("c", mname, Tin, Thot, **dims)
    except Exception as e:
        rec.reject("construct refused: %s(%s): %s" % (sname, mname, type(e).__name__))
        return
    mat = c.material
    fluid = is_fluidlike(mat, matmod, custom)
    npath = rng.randint(1, 8)
    path = [rng.uniform(lo, hi) for _ in range(npath)]
    if rng.random() < .3 and npath > 1:
        path[-1] = Thot  # return to start
    w["path"] = path
    tedims = sorted(scls.THERMAL_EXPANSION_DIMS)
    try:
        cold = {k: c.getDimension(k, cold=True) for k in tedims}
        if fluid:
            d0 = {k: c.getDimension(k) for k in tedims}
            a0 = c.getArea()
            for T in path:
                c.setTemperature(T)
            rec.hit("law.fluid")
            d1 = {k: c.getDimension(k) for k in tedims}
            if d0 != d1 or d0 != cold or c.getArea() != a0:
                rec.violation("fluid-or-custom/dimensions-moved", "%s %s component: dimensions changed under setTemperature: %s -> %s" % (mname, sname, d0, d1), w)
            rec.case(["fluid", sname, mname, npath], nontrivial=True)
            return
        p_in = pct(mat, Tin)
        p0 = pct(mat, Thot)
        N0 = dict(c.p.numberDensities)
        A0 = c.getArea()
        nontrivial = False
        Tprev, pprev = Thot, p0
        for T in path:
            nlog = len(LOG)
            c.setTemperature(T)
            pT = pct(mat, T)
            if pT != pprev:
                nontrivial = True
            ev = LOG[nlog] if len(LOG) > nlog else None
            if ev is None or ev[0] != id(c):
                rec.violation("monitor/setTemperature-not-observed", "setTemperature hook did not fire", w)
                return
            # per-step law on the event log: N' / N = ((100+p_prev)/(100+p_new))^2
            fstep = (100.0 + pT) / (100.0 + pprev)
            rec.hit("law.ndens")
            for nuc, n_before in ev[3].items():
                n_after = ev[4].get(nuc)
                if n_after is None or not relclose(n_after * fstep ** 2, n_before, TOLERANCES["law_rel"]):
                    rec.violation("ndens/not-inverse-square-of-expansion/%s" % ("step"),
                                  "%s/%s %g->%g C: N(%s) %r -> %r, expected factor %r" % (sname, mname, Tprev, T, nuc, n_before, n_after, fstep ** -2), dict(w, step=[Tprev, T]))
                    break
            # dimensions: cold * f(Tin -> T)
            f_in = (100.0 + pT) / (100.0 + p_in)
            rec.hit("law.dims")
            for k in tedims:
                got = c.getDimension(k)
                if cold[k] and not relclose(got, cold[k] * f_in, TOLERANCES["law_rel"]):
                    rec.violation("dimension/not-cold-times-factor/%s" % sname, "%s.%s at %g C = %r, cold %r x f %r = %r" % (sname, k, T, got, cold[k], f_in, cold[k] * f_in), dict(w, dim=k, T=T))
                    break
                if c.getDimension(k, cold=True) != cold[k]:
                    rec.violation("dimension/cold-value-changed", "cold %s changed %r -> %r" % (k, cold[k], c.getDimension(k, cold=True)), w)
            # non-expanding dims (mult, nHoles) never move
            for k in ("mult", "nHoles"):
                if k in dims and c.getDimension(k) != dims[k]:
                    rec.violation("dimension/non-expanding-moved", "%s changed to %r" % (k, c.getDimension(k)), w)
            Tprev, pprev = T, pT
        Tn = path[-1]
        fn = (100.0 + pct(mat, Tn)) / (100.0 + p0)
        rec.hit("law.area")
        An = c.getArea()
        if not relclose(An, A0 * fn ** 2, TOLERANCES["law_rel"]):
            rec.violation("area/not-square-of-expansion/%s" % sname, "%s/%s area %r -> %r, f^2=%r expected %r" % (sname, mname, A0, An, fn ** 2, A0 * fn ** 2), w)
        for nuc, n0 in N0.items():
            if not relclose(c.p.numberDensities.get(nuc, float("nan")) * An, n0 * A0, TOLERANCES["law_rel"]):
                rec.violation("mass-per-height/not-conserved", "%s/%s N*A of %s: %r -> %r" % (sname, mname, nuc, n0 * A0, c.p.numberDensities.get(nuc) * An), w)
                break
        # path independence: same end state as a fresh component taken there in one step
        c2 = scls("c", mname, Tin, Thot, **dims)
        c2.setTemperature(Tn)
        rec.hit("law.path")
        for nuc, n1 in c.p.numberDensities.items():
            if not relclose(n1, c2.p.numberDensities[nuc], TOLERANCES["path_rel"]):
                rec.violation("path-dependence/ndens", "%s/%s via %s: N(%s)=%r, direct %r" % (sname, mname, path, nuc, n1, c2.p.numberDensities[nuc]), w)
                break
        if not relclose(c.getArea(), c2.getArea(), TOLERANCES["path_rel"]) or any(not relclose(c.getDimension(k), c2.getDimension(k), TOLERANCES["path_rel"]) for k in tedims if cold[k]):
            rec.violation("path-dependence/dimensions", "%s/%s dimensions differ between path and direct" % (sname, mname), w)
        # setting a hot dimension reads back
        k = rng.choice(tedims)
        val = (cold[k] or 0.5) * rng.uniform(.9, 1.1)
        if sname in ("circle", "helix") and k == "id":
            val = min(val, c.getDimension("od") * .95)
        c.setDimension(k, val, cold=False)
        rec.hit("law.hotset")
        if not relclose(c.getDimension(k), val, TOLERANCES["readback_rel"]):
            rec.violation("setDimension/hot-value-does-not-read-back", "%s.%s set hot to %r at %g C, reads %r" % (sname, k, val, Tn, c.getDimension(k)), dict(w, dim=k))
        val2 = val * 1.01
        c.setDimension(k, val2, cold=True)
        if c.getDimension(k, cold=True) != val2:
            rec.violation("setDimension/cold-value-does-not-read-back", "%s.%s cold set %r reads %r" % (sname, k, val2, c.getDimension(k, cold=True)), w)
        rec.case(["solid", sname, mname, npath, Thot == Tin], nontrivial=nontrivial, sample=w if sname == "circle" and mname == "HT9" else None)
    except RuntimeError as e:
        if "Linear expansion percent may not be implemented" in str(e):
            rec.reject("no_expansion_law:" + mname)
        else:
            rec.crash("component/%s" % sname, e, w)
    except Exception as e:
        rec.crash("component/%s" % sname, e, w)


def one_link_case(rec, rng, mats, matmod, custom, blocks):
    """gap.id -> fuel.od ; optional third component; in a block or free."""
    from armi.reactor import components

    solids = [m.__name__ for m in mats if m.__name__ in ("HT9", "UZr", "UO2", "B4C", "Zr", "Graphite", "Inconel600", "TZM", "MgO", "HastelloyN", "Cu", "Be9")]
    m1, m3 = rng.choice(solids), rng.choice(solids)
    mgap = rng.choice(["Sodium", "Void", "Custom"] + solids)
    inblock = rng.random() < .6
    od1 = rng.uniform(.4, 1.0)
    T0 = 25.0
    w = {"inner": m1, "gap": mgap, "outer": m3, "in_block": inblock}
    try:
        fuel = components.Circle("fuel", m1, T0, T0, od=od1, id=0.0, mult=7)
        clad = components.Circle("clad", m3, T0, T0, od=od1 * 1.4, id=od1 * 1.2, mult=7)
        gap = components.Circle("gap", mgap, T0, T0, od="clad.id", id="fuel.od", mult="fuel.mult", components={"clad": clad, "fuel": fuel})
        chain = None
        if rng.random() < .5:
            chain = components.Circle("liner", rng.choice(solids), T0, T0, od="gap.od", id="gap.id", mult=7, components={"gap": gap})
        if inblock:
            b = blocks.HexBlock("fuel")
            b.setHeight(10.0)
            for c_ in (fuel, gap, clad) + ((chain,) if chain else ()):
                b.add(c_)
        seq = []
        for _ in range(rng.randint(1, 6)):
            who = rng.choice(["fuel", "clad", "gap", "set-fuel-od", "set-clad-id-hot", "set-through-link-hot", "set-through-link-cold"])
            T = rng.uniform(20, 580)
            seq.append((who, T))
            if who == "fuel":
                fuel.setTemperature(T)
            elif who == "clad":
                clad.setTemperature(T)
            elif who == "gap":
                gap.setTemperature(T)
            elif who == "set-fuel-od":
                fuel.setDimension("od", od1 * rng.uniform(.9, 1.05))
            elif who in ("set-through-link-hot", "set-through-link-cold"):
                # write a linked dimension of the gap with retainLink: the value lands on the owner (fuel.od / clad.id), which
                # converts a hot value with ITS OWN expansion factor; the hot value must read back on both sides
                key, owner, okey = rng.choice([("id", fuel, "od"), ("od", clad, "id")])
                val = od1 * (rng.uniform(.9, 1.05) if key == "id" else rng.uniform(1.15, 1.25))
                hotset = who.endswith("hot")
                gap.setDimension(key, val, retainLink=True, cold=not hotset)
                rec.hit("law.link-write")
                got_gap, got_owner = gap.getDimension(key, cold=not hotset), owner.getDimension(okey, cold=not hotset)
                if not relclose(got_owner, val, TOLERANCES["readback_rel"]) or not relclose(got_gap, val, TOLERANCES["readback_rel"]):
                    rec.violation("link/write-through-link-does-not-read-back/%s" % ("hot" if hotset else "cold"),
                                  "gap.setDimension(%s, %r, retainLink=True, cold=%s): gap reads %r, owner %s.%s reads %r" % (key, val, not hotset, got_gap, owner.name, okey, got_owner), dict(w, seq=seq))
                if hotset:
                    p_in, p_now = pct(owner.material, owner.inputTemperatureInC), pct(owner.material, owner.temperatureInC)
                    f_owner = (100.0 + p_now) / (100.0 + p_in)
                    if not relclose(owner.getDimension(okey, cold=True) * f_owner, val, TOLERANCES["law_rel"]):
                        rec.violation("link/write-through-link-cold-value-not-owner-factor", "owner cold %s.%s = %r, hot %r / owner factor %r = %r" % (owner.name, okey, owner.getDimension(okey, cold=True), val, f_owner, val / f_owner), dict(w, seq=seq))
            else:
                clad.setDimension("id", od1 * rng.uniform(1.15, 1.25), cold=False)
            rec.hit("law.link")
            pairs = [("gap.id", gap.getDimension("id"), "fuel.od", fuel.getDimension("od")),
                     ("gap.od", gap.getDimension("od"), "clad.id", clad.getDimension("id")),
                     ("gap.mult", gap.getDimension("mult"), "fuel.mult", fuel.getDimension("mult")),
                     ("gap.id(cold)", gap.getDimension("id", cold=True), "fuel.od(cold)", fuel.getDimension("od", cold=True))]
            if chain:
                pairs += [("liner.od", chain.getDimension("od"), "clad.id", clad.getDimension("id")), ("liner.id", chain.getDimension("id"), "fuel.od", fuel.getDimension("od"))]
            for ln, lv, tn, tv in pairs:
                if lv != tv:
                    rec.violation("link/linked-dimension-differs-from-target", "after %s: %s=%r but %s=%r" % (seq, ln, lv, tn, tv), dict(w, seq=seq))
                    break
            # the linked component's area follows (no stale cache) : pi/4 (od^2-id^2) mult
            exp_area = math.pi / 4 * (gap.getDimension("od") ** 2 - gap.getDimension("id") ** 2) * gap.getDimension("mult")
            if not relclose(gap.getArea(), exp_area, 1e-12):
                rec.violation("link/stale-area", "gap area %r, from its current dimensions %r" % (gap.getArea(), exp_area), dict(w, seq=seq))
            if inblock and not relclose(gap.getVolume(), exp_area * b.getHeight(), 1e-12):
                rec.violation("link/stale-volume", "gap volume %r, from its current dimensions %r" % (gap.getVolume(), exp_area * b.getHeight()), dict(w, seq=seq))
        rec.case(["link", m1, mgap, m3, inblock, bool(chain), [s for s, _ in seq]], sample=dict(w, seq=seq) if rng.random() < .02 else None)
    except RuntimeError as e:
        if "Linear expansion percent may not be implemented" in str(e):
            rec.reject("no_expansion_law(link)")
        else:
            rec.crash("link", e, w)
    except Exception as e:
        rec.crash("link", e, w)
