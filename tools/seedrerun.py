#!/usr/bin/env python3
"""Re-run checks against an already filed seeded change and append the outcome to its meta.json (later_runs).
usage: tools/seedrerun.py <seed id> [--checks C03,C16] [--tier quick] [--note "..."]"""
import argparse, json, os, shutil, subprocess, tempfile, time
ROOT = os.path.dirname(os.path.dirname(os.path.abspath(__file__)))
ap = argparse.ArgumentParser(); ap.add_argument("sid"); ap.add_argument("--checks"); ap.add_argument("--tier", default="quick"); ap.add_argument("--note", default="")
a = ap.parse_args()
d = os.path.join(ROOT, "seeded", a.sid); mp = os.path.join(d, "meta.json"); m = json.load(open(mp))
wt = tempfile.mkdtemp(prefix="wt-seed-"); os.rmdir(wt)
subprocess.run(["git", "-C", "/repo", "worktree", "add", "-q", "--detach", wt, "HEAD"], check=True)
try:
    r = subprocess.run(["git", "-C", wt, "apply", "--3way", os.path.join(d, "patch.diff")], capture_output=True, text=True)
    assert r.returncode == 0, r.stderr
    for c in (a.checks.split(",") if a.checks else [m["property"]]):
        k = subprocess.run([os.path.join(ROOT, "check"), c, "--tier", a.tier, "--no-evidence"], env=dict(os.environ, VERIF_REPO=wt), cwd=ROOT, capture_output=True, text=True)
        keys = [l.strip().split(" count=")[0].replace("key=", "") for l in k.stdout.splitlines() if l.strip().startswith("key=")]
        line = "%s %s: %s%s%s" % (c, a.tier, "CAUGHT" if k.returncode == 1 else "missed(exit %d)" % k.returncode, (" [" + ", ".join(keys[:3]) + "]") if keys else "", (" - " + a.note) if a.note else "")
        m.setdefault("later_runs", []).append(line); print(line)
finally:
    subprocess.run(["git", "-C", "/repo", "worktree", "remove", "--force", wt]); shutil.rmtree(wt, ignore_errors=True)
json.dump(m, open(mp, "w"), indent=1)
