"""Check driver: plan shards, run each in a fresh interpreter, merge, judge, write evidence."""
import argparse
import re
import concurrent.futures as cf
import importlib
import json
import os
import shutil
import subprocess
import sys
import tempfile
import time

ROOT = os.path.dirname(os.path.dirname(os.path.abspath(__file__)))
PY = os.environ.get("VERIF_PYTHON", "/venv/bin/python")
REPO = os.environ.get("VERIF_REPO", "/repo")
NCPU = int(os.environ.get("VERIF_JOBS", str(os.cpu_count() or 4)))


def shard_env():
    e = dict(os.environ)
    e["PYTHONPATH"] = REPO + os.pathsep + ROOT
    e["PYTHONHASHSEED"] = "0"
    e["PYTHONDONTWRITEBYTECODE"] = "1"
    e["VERIF_REPO"] = REPO
    e["OMP_NUM_THREADS"] = e["OPENBLAS_NUM_THREADS"] = e["MKL_NUM_THREADS"] = "1"
    e["HDF5_USE_FILE_LOCKING"] = "FALSE"
    e["MPLBACKEND"] = "agg"
    return e


def run_one(modname, spec, tmp, idx, timeout):
    specfile = os.path.join(tmp, "spec%d.json" % idx)
    outfile = os.path.join(tmp, "out%d.json" % idx)
    json.dump(spec, open(specfile, "w"))
    t0 = time.time()
    try:
        p = subprocess.run(
            [PY, "-m", "vlib.shard", modname, specfile, outfile],
            cwd=ROOT, env=dict(shard_env(), TMPDIR=tmp), timeout=timeout,  # scratch of a killed shard goes with the run's directory
            stdout=subprocess.PIPE, stderr=subprocess.STDOUT,
        )
        tail = p.stdout.decode("utf8", "replace")[-3000:]
        if os.path.exists(outfile):
            out = json.load(open(outfile))
            out["status"] = "ok" if not out.get("error") else "harness-error"
        else:
            out = {"status": "died", "error": "exit=%s\n%s" % (p.returncode, tail), "spec": spec}
    except subprocess.TimeoutExpired:
        out = {"status": "timeout", "error": "watchdog %ss" % timeout, "spec": spec}
    out.setdefault("wall_s", time.time() - t0)
    return out


def main(argv=None):
    ap = argparse.ArgumentParser()
    ap.add_argument("prop")
    ap.add_argument("--tier", default=os.environ.get("VERIF_TIER", "quick"), choices=["quick", "thorough"])
    ap.add_argument("--seed", type=int, default=int(os.environ.get("VERIF_SEED", "0") or 0))
    ap.add_argument("--replay")
    ap.add_argument("--only", help="run only shards whose name contains this")
    ap.add_argument("--no-evidence", action="store_true")
    a = ap.parse_args(argv)
    prop = a.prop.upper()
    modname = prop.lower()
    sys.path.insert(0, ROOT)
    mod = importlib.import_module("checks." + modname)
    t0 = time.time()

    if a.replay:
        rp = json.load(open(a.replay))
        specs = [rp["spec"]]
        a.tier, a.seed = rp.get("tier", a.tier), rp.get("seed", a.seed)
    else:
        specs = mod.plan(a.tier, a.seed)
        for i, s in enumerate(specs):
            s.setdefault("name", "s%d" % i)
            s["seed"] = a.seed
            s["tier"] = a.tier
            s["rng"] = "%d:%s:%s" % (a.seed, prop, s["name"])
        if a.only:
            specs = [s for s in specs if a.only in s["name"]]
    timeout = getattr(mod, "TIMEOUT", {"quick": 900, "thorough": 7200})[a.tier]
    tmp = tempfile.mkdtemp(prefix="verif-%s-" % prop)
    try:
        with cf.ThreadPoolExecutor(max_workers=NCPU) as ex:
            futs = [ex.submit(run_one, modname, s, tmp, i, s.get("timeout", timeout)) for i, s in enumerate(specs)]
            outs = [f.result() for f in futs]
    finally:
        shutil.rmtree(tmp, ignore_errors=True)
    code = judge(mod, prop, a, specs, outs, time.time() - t0)
    sys.exit(code)


def judge(mod, prop, a, specs, outs, wall):
    from vlib import findings

    known, fixed = findings.load(prop)
    ev = 0
    sigs = set()
    samples, hits, rejected, unjudged, notes = [], {}, {}, {}, {}
    viol_count, viol = {}, {}
    bad_shards = []
    for spec, o in zip(specs, outs):
        if o["status"] != "ok":
            bad_shards.append({"shard": spec.get("name"), "status": o["status"], "error": (o.get("error") or "")[-1500:]})
            # the interpreter itself killed by a memory error (glibc heap check, segmentation fault, ...) while running the code under
            # test on generated input is a violation with the shard as the replay, not "inconclusive"; a kill from outside (SIGKILL,
            # SIGTERM: out of memory, watchdog) stays inconclusive
            m_ = re.match(r"exit=-(4|6|7|8|11)\b", o.get("error") or "") if o["status"] == "died" else None
            if m_:
                k_ = "native-crash/%s/signal-%s" % (spec.get("name"), m_.group(1))
                viol_count[k_] = viol_count.get(k_, 0) + 1
                viol.setdefault(k_, []).append({"what": "shard %s: the interpreter died with signal %s: %s" % (spec.get("name"), m_.group(1), (o.get("error") or "")[-300:].replace("\n", " | ")),
                                               "witness": {"error": (o.get("error") or "")[-1500:]}, "spec": spec})
        ev += o.get("evaluations", 0)
        sigs.update(o.get("sigs", []))
        for s in o.get("samples", []):
            if len(samples) < 8:
                samples.append({"shard": spec.get("name"), "case": s})
        for name, dst in (("hits", hits), ("rejected", rejected), ("unjudged", unjudged), ("viol_count", viol_count)):
            for k, v in o.get(name, {}).items():
                dst[k] = dst.get(k, 0) + v
        for k, v in o.get("notes", {}).items():
            if isinstance(v, (int, float)) and not isinstance(v, bool) and isinstance(notes.get(k, 0), (int, float)):
                notes[k] = notes.get(k, 0) + v
            elif isinstance(v, list) and isinstance(notes.get(k, []), list):
                notes[k] = (notes.get(k, []) + v)[:60]
            else:
                notes.setdefault(k, v)
        for k, lst in o.get("viol", {}).items():
            for w in lst:
                viol.setdefault(k, [])
                if len(viol[k]) < 3:
                    viol[k].append(dict(w, spec=spec))

    # floors: deciding monitors that were never reached => inconclusive
    floors = getattr(mod, "FLOORS", {}).get(a.tier, {}) if not (a.replay or a.only) else {}
    short = {k: (hits.get(k, 0), need) for k, need in floors.items() if hits.get(k, 0) < need}

    new_keys = [k for k in viol_count if k not in known]
    known_seen = [k for k in viol_count if k in known]
    lines = []
    os.makedirs(os.path.join(ROOT, "replays"), exist_ok=True)
    for k in known_seen:
        lines.append("KNOWN-FINDING: property=%s %s [%s; seen %d times]" % (prop, known[k]["what"], k, viol_count[k]))
    replays = []
    for i, k in enumerate(sorted(new_keys)):
        w = viol[k][0]
        path = os.path.join(ROOT, "replays", "%s-%s-seed%d-%d.json" % (prop, a.tier, a.seed, i))
        json.dump({"property": prop, "key": k, "seed": a.seed, "tier": a.tier, "spec": w.get("spec"),
                   "what": w["what"], "witness": w.get("witness"), "count": viol_count[k],
                   "regression_of_fixed": k in fixed}, open(path, "w"), indent=1, default=repr)
        replays.append(path)
        lines.append("VIOLATION property=%s replay=%s" % (prop, path))
        lines.append("  key=%s count=%d%s: %s" % (k, viol_count[k], " (REGRESSION of a fixed finding)" if k in fixed else "", w["what"][:400]))

    verdict = "violated" if new_keys else ("inconclusive" if (bad_shards or short) else "held")
    if not a.no_evidence and not a.replay and not a.only:
        level = getattr(mod, "LEVEL", "exploration")
        evd = {
            "property_id": prop, "tier": a.tier, "seed": a.seed, "level": level,
            "coverage": {
                "evaluations": ev, "distinct_nontrivial": len(sigs),
                "rule": getattr(mod, "RULE", ""),
                "samples": samples or [{"note": "no sample recorded"}],
                "exhaustive": bool(getattr(mod, "EXHAUSTIVE", {}).get(a.tier, False)) if isinstance(getattr(mod, "EXHAUSTIVE", None), dict) else False,
                "exhaustive_part": getattr(mod, "EXHAUSTIVE_PART", ""),
                "monitor_hits": dict(sorted(hits.items())),
                "rejected": rejected, "unjudged": unjudged, "observed": notes,
                "known_findings_seen": {k: viol_count[k] for k in known_seen},
                "shards": len(specs), "shard_wall_s": [round(o.get("wall_s", 0), 1) for o in outs],
                "tolerances": getattr(mod, "TOLERANCES", {}),
                "verdict": verdict, "inconclusive_reasons": {"shards": bad_shards, "floors": short},
            },
            "assumptions": _assumptions(mod),
            "wall_s": round(wall, 2),
            "violations": sum(viol_count[k] for k in new_keys),
        }
        os.makedirs(os.path.join(ROOT, "evidence"), exist_ok=True)
        p = os.path.join(ROOT, "evidence", prop + ".json")
        json.dump(evd, open(p + ".tmp", "w"), indent=1, default=repr)
        os.replace(p + ".tmp", p)
    for ln in lines:
        print(ln)
    if floors:
        kmin = min(floors, key=lambda k: hits.get(k, 0) / float(floors[k]))
        print("  floors: %d monitors with a minimum hit count; smallest margin %.2fx (%s: %d hits, floor %d)" % (len(floors), hits.get(kmin, 0) / float(floors[kmin]), kmin, hits.get(kmin, 0), floors[kmin]))
    print("%s %s tier=%s seed=%d: %s; %d executions judged, %d distinct non-trivial, %d shards, %.1fs" % (
        "CHECK", prop, a.tier, a.seed, verdict.upper(), ev, len(sigs), len(specs), wall))
    if a.replay or a.only or verdict != "held":
        for k, v in sorted(hits.items()):
            print("  hit %-50s %d" % (k, v))
    if verdict == "violated":
        return 1
    if verdict == "inconclusive":
        print("INCONCLUSIVE property=%s shards=%s floors=%s" % (prop, json.dumps(bad_shards)[:3000], short))
        return 2
    return 0


def _assumptions(mod):
    from vlib import env

    return list(env.ASSUMPTIONS) + list(getattr(mod, "ASSUMPTIONS", []))


if __name__ == "__main__":
    main()
