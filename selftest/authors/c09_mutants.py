import subprocess, sys, shutil, os, json
BASE="/tmp/wt-c09"; M="/tmp/wt-c09m"
def sub(path, old, new):
    p=os.path.join(M,path); s=open(p).read(); assert s.count(old)>=1,(path,old); open(p,"w").write(s.replace(old,new,1))
C="armi/nuclearDataIO/cccc/"
MUT = {
 "M1-writer-rwDouble-counts-4": lambda: sub(C+"cccc.py", '''        self.numBytes += self._floatSize * 2
        self.data.append(struct.pack("d", val))''','''        self.numBytes += self._floatSize
        self.data.append(struct.pack("d", val))'''),
 "M2-binary-rwString-rjust": lambda: sub(C+"cccc.py", 'val.ljust(length).encode("utf-8")', 'val.rjust(length).encode("utf-8")'),
 "M3-isotxs-band-shift-on-write": lambda: sub(C+"isotxs.py", "reversed(scatter[g, jdown:jup].tolist())", "reversed(scatter[g, jdown + 1 : jup + 1].tolist())"),
 "M4-labels-optional-record-guard-asym": lambda: sub(C+"labels.py", 'if self._metadata["numNuclideSets"] > 1:', 'if self._metadata["numNuclideSets"] > (1 if "r" in self._fileMode else 0):'),
 "M5-blockbandwidth-rounding": lambda: sub(C+"cccc.py", "x = (nintj - 1) // nblok + 1", "x = nintj // nblok + 1"),
 "M6-reader-rwString-no-rstrip": lambda: sub(C+"cccc.py", "return s.rstrip().decode()", "return s.decode()"),
 "M7-nhflux-5D-loop-order-symmetric": lambda: sub(C+"nhflux.py", '''            for j in range(nSurf):
                for i in range(nAssem):
                    for m in range(nscoef):''','''            for i in range(nAssem):
                for j in range(nSurf):
                    for m in range(nscoef):'''),
 "M8-pmatrx-gamma-heating-not-written": lambda: sub(C+"pmatrx.py", '''        if not self._metadata["hasGammaHeating"]:
            return''','''        if not self._metadata["hasGammaHeating"] or "w" in self._pmatrixIO._fileMode:
            return'''),
 "M9-ascii-rwString-right-justified": lambda: sub(C+"cccc.py", '" {value:<{length}}"', '" {value:>{length}}"'),
 "M10-compxs-scatter-not-reversed-on-write": lambda: sub(C+"compxs.py", "return list(reversed(flatVector))", "return list(flatVector)"),
 "M12-geodst-5D-field-dropped-both-ways": lambda: sub(C+"geodst.py", '''            self._data.zonesWithBlackAbs = record.rwList(
                self._data.zonesWithBlackAbs, "int", self._metadata["NZWBB"]
            )''', "            self._data.zonesWithBlackAbs = []"),
 "M14-dlayxs-yield-shape-asym": lambda: sub(C+"dlayxs.py", '''                    self.metadata["nkfam"][ii],
                    self.metadata["numEnergyGroups"],
                ).transpose()''','''                    self.metadata["nkfam"][ii] - (1 if "w" in self._fileMode and self.metadata["nkfam"][ii] > 1 else 0),
                    self.metadata["numEnergyGroups"],
                ).transpose()'''),
 "M15-rtflux-adjoint-group-order-read-only": lambda: sub(C+"rtflux.py", "        return ng - g - 1", '        return ng - g - 1 if "r" in self._fileMode else g'),
 "M16-writer-int-in-list-truncated": lambda: sub(C+"cccc.py", '''        return np.array([action(contents[ii]) for ii in range(length)])''','''        return np.array([action(contents[ii]) for ii in range(length if (length < 3 or "Writer" not in type(self).__name__) else length - 1)])'''),
}
only = sys.argv[1:] 
for name, fn in MUT.items():
    if only and not any(o in name for o in only): continue
    subprocess.run(["rsync","-a","--delete","--exclude",".git","--exclude","__pycache__",BASE+"/",M+"/"],check=True)
    fn()
    p=subprocess.run(["./check","C09","--no-evidence"],cwd="/verif",env=dict(os.environ,VERIF_REPO=M),capture_output=True,text=True)
    keys=[l.strip().split(" count=")[0] for l in p.stdout.splitlines() if l.strip().startswith("key=")]
    print(name, "exit", p.returncode, keys[:8], flush=True)
    if p.returncode not in (0,1): print(p.stdout[-1500:])
