"""C11 - re-meshing an assembly axially conserves atoms and integrated quantities.

Workload: generated pin-type assemblies (2-12 blocks, random heights / compositions / parameter profiles incl. arrays,
unset values, zeros) mapped onto generated target meshes spanning the same height (coarser, finer, shifted, identical,
nearly coincident points, single cell, random) with the real ``makeAssemWithUniformMesh`` / ``setAssemblyStateFromOverlaps``
and a real ``ParamMapper`` in both directions; generated and repo test reactors through ``convert`` /
``applyStateToOriginal`` and ``UniformMeshGenerator`` (plus a mesh-generator-only workload over many cores x height
perturbations x minimum sizes); ``_filterMesh`` / ``average1DWithinTolerance`` /
``resampleStepwise`` as pure functions.  Oracles are numpy one-liners over the harness's own overlap matrix.
"""
import itertools
import random

import numpy as np

PROP = "C11"
LEVEL = "exploration"
RULE = (
    "assemblies of 2-12 vlib.gen pin blocks (fuel/control/shield/plenum/reflector, one pitch per assembly, heights 0.5-60 cm) with 3-8 block "
    "parameters drawn from pools of volume-integrated / averaged / peak parameters (scalars and arrays; profiles const, random, signed, zeros, "
    "all-unset, some-unset, one-hot, ints, empty arrays) x target meshes {identical, coarser, finer, shifted, near (offsets 1e-9..1e-3 cm), "
    "single, random, thin cell}; forward through makeAssemWithUniformMesh, backward through setAssemblyStateFromOverlaps onto the original; "
    "interval queries on getBlocksBetweenElevations/getBlockAtElevation; setBlockMesh/setHeight with mass conservation on/off/auto; "
    "generated hex cores (2-4 designs, perturbed heights, optional nonUniformAssemFlags / minimum mesh size) and the repo test reactors through "
    "convert/applyStateToOriginal and the mesh generator; a mesh-generator-only workload (generated cores x up to 3 successive height perturbations "
    "{none, per assembly small/large, per design, outlier assemblies > 20 % off the mean} x 4 minimum sizes drawn around the gaps between anchored "
    "material boundaries, between them and the core bottom/top, and between average-mesh points, incl. exactly a gap) judging: strictly increasing, "
    "every point is an average-mesh point or an anchored boundary (first bottom / last top of the fuel/control blocks of a fuel/control assembly - "
    "other block boundaries are not candidates), no cell incl. the first one [0, m0] thinner than the minimum, anchors kept when all are separated, "
    "a refusal only when two of {anchors, z=0, core top} are closer than the minimum, a filtered average mesh = column mean of some set of assembly "
    "meshes all within 20 % of it (subsets enumerated up to 16 rows); _filterMesh, average1DWithinTolerance, resampleStepwise on generated inputs. "
    "NOT judged (counted under unjudged): an averaged parameter of a target cell that overlaps a mix of set and unset source values (the property "
    "states no law for it; armi averages the set ones over the whole cell height), negative peak values, sub-EPS slivers, queries outside the assembly, "
    "resampling cells that straddle the end of the input range. "
    "distinct = (layout kinds, mesh kind, cell count, parameter profile kinds, direction options); non-trivial = target mesh differs from source mesh."
)
TOLERANCES = {
    "conserve_rel": 1e-9,            # totals (atoms, integrated sums, height integrals) source vs target
    "law_rel": 1e-9,                 # per-block overlap laws
    "overlap_eps_fraction": 1e-10,   # armi's documented EPS: overlaps below this fraction of a source block are ignored (allowed x2)
    "reactor_conserve_rel": 1e-8,    # core meshes are rounded to 1e-8 cm (units.FLOAT_DIMENSION_DECIMALS) by findAllMeshPoints
    "interval_abs": 1e-12,           # per-overlap height vs harness overlap, times total height
    "mesh_abs": 1e-9,                # z coordinates of new blocks vs requested mesh
    "avgmesh_abs": 2e-8,             # average mesh vs column mean of 1e-8-rounded fine meshes
    "pure_rel": 1e-9,
    "min_cell": 1e-5,                # thinner target cells are outside the judged domain (armi ignores cells < 1e-6)
}
EXHAUSTIVE = {"quick": False, "thorough": False}
EXHAUSTIVE_PART = ""
FLOORS = {
    "quick": {"atoms.forward": 600, "atoms.backward": 300, "ndens.block": 600, "ndens.untouched": 300, "mesh.applied": 500, "param.integrated.total": 600,
              "param.integrated.block": 3000, "param.averaged.block": 3000, "param.averaged.integral": 2000, "param.constant": 150, "param.peak.block": 1500,
              "param.peak.global": 1500, "param.unset": 300, "roundtrip.atoms": 200, "roundtrip.integrated": 300, "roundtrip.averaged": 500, "roundtrip.peak": 400,
              "interval.partition": 3000, "blockAtElevation": 1500, "setBlockMesh": 100, "setHeight.conserve": 25, "adjustDensity.mass": 25,
              "hook:Assembly.getBlocksBetweenElevations": 8000, "filterMesh.post": 1500, "filterMesh.raise-iff": 1500, "average1D": 800, "average1D.filtered": 100,
              "resample.avg": 1500, "resample.sum": 1500, "reactor.convert.atoms": 60, "reactor.apply.params": 60, "reactor.convert.uniform": 6,
              "reactor.nonuniform.restored": 12, "commonmesh.average": 60, "commonmesh.average.all-within": 50, "commonmesh.average.filtered": 10,
              "commonmesh.average.filtered.subset": 8, "commonmesh.decusp": 150, "commonmesh.decusp.raise-iff": 200, "commonmesh.decusp.separated": 80,
              "commonmesh.first-cell": 150, "commonmesh.candidates": 1200},
    "thorough": {"atoms.forward": 12000, "atoms.backward": 6000, "ndens.block": 12000, "ndens.untouched": 6000, "mesh.applied": 10000, "param.integrated.total": 12000,
                 "param.integrated.block": 60000, "param.averaged.block": 60000, "param.averaged.integral": 40000, "param.constant": 3000, "param.peak.block": 30000,
                 "param.peak.global": 30000, "param.unset": 6000, "roundtrip.atoms": 4000, "roundtrip.integrated": 6000, "roundtrip.averaged": 10000,
                 "roundtrip.peak": 8000, "interval.partition": 60000, "blockAtElevation": 30000, "setBlockMesh": 2000, "setHeight.conserve": 500,
                 "adjustDensity.mass": 500, "hook:Assembly.getBlocksBetweenElevations": 160000, "filterMesh.post": 30000, "filterMesh.raise-iff": 30000,
                 "average1D": 16000, "average1D.filtered": 2000, "resample.avg": 30000, "resample.sum": 30000, "reactor.convert.atoms": 1200,
                 "reactor.apply.params": 1200, "reactor.convert.uniform": 120, "reactor.nonuniform.restored": 240, "commonmesh.average": 1200,
                 "commonmesh.average.all-within": 1000, "commonmesh.average.filtered": 200, "commonmesh.average.filtered.subset": 160, "commonmesh.decusp": 3000,
                 "commonmesh.decusp.raise-iff": 4000, "commonmesh.decusp.separated": 1600, "commonmesh.first-cell": 3000, "commonmesh.candidates": 24000},
}
TIMEOUT = {"quick": 900, "thorough": 7200}
ASSUMPTIONS = [
    "block cross-section is uniform along a generated assembly (one pitch), so N*h conservation is atom conservation; checked per case, else unjudged",
    "a parameter's kind (integrated / averaged / peak) is read from its definition's declared ParamLocation, independently of ParamMapper",
]

INT_SCALARS = ["power", "powerGenerated", "powerGamma", "powerNeutron", "kgHM", "kgFis", "molesHmBOL", "massHmBOL", "rxFuelDopplerConstant"]
INT_ARRAYS = ["mgFlux", "adjMgFlux", "mgFluxGamma", "lastMgFlux"]
AVG_SCALARS = ["pdens", "flux", "fastFlux", "linPow", "rateFis", "pdensGamma", "fluxAdj", "THcoolantAverageT", "kInf", "rateAbs"]
AVG_ARRAYS = ["mgNeutronVelocity", "extSrc", "chi"]
PEAKS = ["fluxPeak", "ppdens", "fluxAdjPeak", "percentBuPeak", "fastFluencePeak", "ppdensGamma", "detailedDpaPeak"]

REC = None  # recorder for ambient hooks


def plan(tier, seed):
    q = tier == "quick"
    out = [{"name": "asm%d" % i, "kind": "assemblies", "n": 150 if q else 3000} for i in range(8)]
    out += [{"name": "rx%d" % i, "kind": "reactors", "n": 12 if q else 240} for i in range(3)]
    out += [{"name": "testrx", "kind": "testreactors", "n": 3 if q else 40}]
    out += [{"name": "pure%d" % i, "kind": "pure", "n": 2600 if q else 52000} for i in range(2)]
    out += [{"name": "meshgen%d" % i, "kind": "meshgen", "n": 22 if q else 440} for i in range(2)]
    return out


def run_shard(spec, rec):
    global REC
    REC = rec
    install_hook()
    if spec["kind"] == "assemblies":
        do_assemblies(spec, rec)
    elif spec["kind"] == "reactors":
        do_reactors(spec, rec)
    elif spec["kind"] == "testreactors":
        do_testreactors(spec, rec)
    elif spec["kind"] == "meshgen":
        do_meshgen(spec, rec)
    else:
        do_pure(spec, rec)


# ----------------------------------------------------------------------------- small numeric helpers
def tops_of(heights):
    z, out = 0.0, []
    for h in heights:
        z = z + h
        out.append(z)
    return out


def overlap_matrix(src_tops, dst_tops):
    """O[j, i] = length of [dst cell j] intersected with [src cell i] (independent of armi)."""
    st, dt = np.asarray(src_tops, float), np.asarray(dst_tops, float)
    sb, db = np.concatenate([[0.0], st[:-1]]), np.concatenate([[0.0], dt[:-1]])
    return np.clip(np.minimum.outer(dt, st) - np.maximum.outer(db, sb), 0.0, None)


def is_none(v):
    return v is None or (isinstance(v, (list, tuple, np.ndarray)) and len(v) == 0)


def as_num(v):
    return np.asarray(v, float) if isinstance(v, (list, tuple, np.ndarray)) else float(v)


def close(got, exp, tol):
    """|got-exp| <= tol elementwise; shapes must agree."""
    try:
        g, e = np.asarray(got, float), np.asarray(exp, float)
    except Exception:
        return False
    if g.shape != e.shape:
        return False
    return bool(np.all(np.abs(g - e) <= tol))


def same(a, b):
    """Exact equality for stored values (None, scalars, arrays)."""
    if a is None or b is None:
        return a is None and b is None
    try:
        x, y = np.asarray(a), np.asarray(b)
        return x.shape == y.shape and bool(np.all(x == y))
    except Exception:
        return False


def param_kinds(block, names):
    """Kind from the *definition* (declared location), not from ParamMapper."""
    from armi.reactor.parameters import ParamLocation as L

    out = {}
    for n in names:
        loc = block.p.paramDefs[n].location
        out[n] = "int" if loc == L.VOLUME_INTEGRATED else "peak" if loc == L.MAX else "avg" if loc == L.AVERAGE else "other"
    return out


def param_defaults(block, names):
    return {n: block.p.paramDefs[n].default for n in names}


def copyval(v):
    return np.array(v) if isinstance(v, np.ndarray) else (list(v) if isinstance(v, (list, tuple)) else v)


def snapshot(asm, nucs, pnames):
    blocks = list(asm)
    return {
        "h": [b.getHeight() for b in blocks],
        "N": np.array([b.getNuclideNumberDensities(nucs) for b in blocks], float).reshape(len(blocks), len(nucs)),
        "V": np.array([b.getVolume() * b.getSymmetryFactor() for b in blocks], float),
        "p": {n: [copyval(b.p[n]) for b in blocks] for n in pnames},
    }


# ----------------------------------------------------------------------------- ambient monitor on the overlap search
def install_hook():
    from armi.reactor.assemblies import Assembly
    from vlib import hooks

    def post(tok, res, a, kw):
        asm = a[0]
        zl, zu = (a[1], a[2]) if len(a) >= 3 else (kw.get("zLower", a[1] if len(a) > 1 else None), kw.get("zUpper"))
        hs = [b.getHeight() for b in asm]
        tp = tops_of(hs)
        H = tp[-1] if tp else 0.0
        lo, hi = max(zl, 0.0), min(zu, H)
        if hi - lo <= 0 or zl < -1e-9 or zu > H + 1e-7:
            return  # interval not inside the assembly: judged (or not) by the direct workload only
        w = {"heights": hs, "zLower": zl, "zUpper": zu, "returned": [h for _b, h in res]}
        eps = 2 * TOLERANCES["overlap_eps_fraction"] * sum(hs) + 1e-12 * max(H, 1.0)
        if any(not (h > 0) for _b, h in res):
            REC.violation("interval/non-positive-overlap", "getBlocksBetweenElevations(%r,%r) returned a non-positive overlap height" % (zl, zu), w)
        tot = sum(h for _b, h in res)
        if abs(tot - (hi - lo)) > eps + max(0.0, zu - H):
            REC.violation("interval/heights-do-not-sum-to-length", "getBlocksBetweenElevations(%r,%r): overlaps sum to %r, interval length %r" % (zl, zu, tot, hi - lo), w)
        ids = [id(b) for b, _h in res]
        if len(set(ids)) != len(ids):
            REC.violation("interval/block-reported-twice", "getBlocksBetweenElevations(%r,%r) reports a block twice" % (zl, zu), w)

    hooks.wrap(Assembly, "getBlocksBetweenElevations", post=post)


# ----------------------------------------------------------------------------- generators
KINDS = ["fuel", "fuel", "control", "shield", "plenum", "reflector"]


def gen_heights(rng, nb):
    style = rng.choice(["uniform", "uniform", "mixed", "thin"])
    if style == "uniform":
        return [rng.uniform(5, 40) for _ in range(nb)]
    if style == "mixed":
        return [rng.choice([rng.uniform(0.5, 3), rng.uniform(5, 60), float(rng.randint(5, 30))]) for _ in range(nb)]
    return [rng.choice([rng.uniform(0.5, 1.5), rng.uniform(10, 30)]) for _ in range(nb)]


def gen_mesh(rng, src_tops):
    """Target mesh (tops) spanning exactly the same height. Returns (kind, tops)."""
    H = src_tops[-1]
    inner = list(src_tops[:-1])
    kind = rng.choice(["identical", "coarser", "finer", "shifted", "near", "near", "single", "random", "thincell"])
    if kind == "identical":
        pts = inner
    elif kind == "coarser":
        pts = [z for z in inner if rng.random() < .5]
    elif kind == "finer":
        pts = inner + [rng.uniform(0, H) for _ in range(rng.randint(1, 8))]
    elif kind == "shifted":
        d = rng.uniform(-1, 1) * min(np.diff([0.0] + src_tops)) * rng.uniform(.05, .9)
        pts = [z + d for z in inner]
    elif kind == "near":
        pts = []
        for z in inner:
            r = rng.random()
            if r < .6:
                pts.append(z + rng.choice([-1, 1]) * 10 ** rng.uniform(-9, -3))
            elif r < .8:
                pts.append(z)
            if rng.random() < .2:
                pts.append(rng.uniform(0, H))
    elif kind == "single":
        pts = []
    elif kind == "random":
        pts = [rng.uniform(0, H) for _ in range(rng.randint(1, 14))]
    else:  # thin target cell somewhere (but inside the judged domain)
        z = rng.choice(inner) if inner and rng.random() < .6 else rng.uniform(0, H)
        t = 10 ** rng.uniform(-4.5, -1)
        pts = [rng.uniform(0, H) for _ in range(rng.randint(0, 4))] + [z - t * rng.random(), z + t * rng.random()]
    pts = sorted(set(p for p in pts if 0 < p < H))
    out = []
    prev = 0.0
    for p in pts:
        if p - prev >= TOLERANCES["min_cell"] and H - p >= TOLERANCES["min_cell"]:
            out.append(p)
            prev = p
    return kind, out + [H]


def gen_profile(rng, kind, nb, arr):
    """Returns (profile-kind, list of values). arr: None for scalar else array length."""
    def val(lo, hi):
        if arr is None:
            return rng.uniform(lo, hi)
        return np.array([rng.uniform(lo, hi) for _ in range(arr)])

    pk = rng.choice(["const", "random", "random", "signed", "zeros", "none_all", "none_some", "onehot", "ints"] + (["empty_some", "listvals"] if arr else []))
    if kind == "peak" and pk == "signed":
        pk = "random" if rng.random() < .7 else "negative"
    if pk == "const":
        c = val(0.1, 10)
        vals = [copyval(c) for _ in range(nb)]
    elif pk == "random":
        vals = [val(0, 10) for _ in range(nb)]
    elif pk == "signed":
        vals = [val(-5, 5) for _ in range(nb)]
    elif pk == "negative":
        vals = [val(-5, 1) for _ in range(nb)]
    elif pk == "zeros":
        vals = [val(0, 0) for _ in range(nb)]
    elif pk == "none_all":
        vals = [None] * nb
    elif pk == "none_some":
        vals = [None if rng.random() < .4 else val(0, 10) for _ in range(nb)]
    elif pk == "onehot":
        k = rng.randrange(nb)
        vals = [val(1, 10) if i == k else val(0, 0) for i in range(nb)]
    elif pk == "ints":
        vals = [rng.randint(0, 9) if arr is None else np.array([rng.randint(0, 9) for _ in range(arr)]) for _ in range(nb)]
    elif pk == "empty_some":
        vals = [np.array([]) if rng.random() < .4 else val(0, 10) for _ in range(nb)]
    else:  # plain python lists / tuples as values
        vals = [(list if rng.random() < .5 else tuple)(float(x) for x in val(0, 10)) for _ in range(nb)]
    return pk, vals


def choose_params(rng):
    names = [rng.choice(INT_SCALARS), rng.choice(AVG_SCALARS), rng.choice(PEAKS)]
    pool = INT_SCALARS + INT_ARRAYS + AVG_SCALARS + AVG_ARRAYS + PEAKS
    for n in rng.sample(pool, rng.randint(1, 5)):
        if n not in names:
            names.append(n)
    if rng.random() < .7 and not any(n in INT_ARRAYS for n in names):
        names.append(rng.choice(INT_ARRAYS))
    return names


def set_profiles(rng, blocks, names, kinds):
    prof = {}
    G = rng.randint(2, 5)
    for n in names:
        arr = G if (n in INT_ARRAYS or n in AVG_ARRAYS) else None
        pk, vals = gen_profile(rng, kinds[n], len(blocks), arr)
        for b, v in zip(blocks, vals):
            b.p[n] = copyval(v)
        prof[n] = pk
    return prof


# ----------------------------------------------------------------------------- the mapping oracle (both directions)
def judge_map(rec, S, D0, D1, O, kinds, mapND, w, tag, defaults=None, tol_rel=None):
    """S: source snapshot; D0: destination before (None => fresh blocks holding `defaults`); D1: destination after.
    O[j,i]: harness overlap of destination cell j with source cell i."""
    EPS = TOLERANCES["overlap_eps_fraction"]
    rel = tol_rel or TOLERANCES["law_rel"]
    crel = tol_rel or TOLERANCES["conserve_rel"]
    hs, Hd = np.asarray(S["h"], float), np.asarray(D1["h"], float)
    nd = len(Hd)
    definite = O > 2 * EPS * hs[None, :]
    positive = O > 0
    # ---- number densities
    if mapND:
        area_s, area_d = S["V"] / hs, D1["V"] / Hd
        A = float(np.median(area_s))
        if np.any(np.abs(area_s - A) > 1e-9 * A) or np.any(np.abs(area_d - A) > 1e-9 * A):
            rec.skip("atoms: block cross-section not uniform along the assembly")
        else:
            rec.hit("atoms." + tag)
            a0, a1 = S["N"].T @ S["V"], D1["N"].T @ D1["V"]
            bad = np.abs(a1 - a0) > crel * np.maximum(np.abs(a0), np.abs(a1)) + 1e-300
            if np.any(bad):
                k = int(np.argmax(np.abs(a1 - a0) / np.maximum(np.abs(a0), 1e-300)))
                rec.violation("remesh/%s/atoms-not-conserved" % tag, "sum_b N_b*V_b of nuclide #%d: source %r, target %r (rel %.3g)" % (k, a0[k], a1[k], abs(a1[k] - a0[k]) / max(abs(a0[k]), 1e-300)), w)
        rec.hit("ndens.block", nd)
        expN = (O @ (S["N"])) / Hd[:, None]
        sliver = 2 * EPS * (hs[:, None] * np.abs(S["N"])).sum(0)[None, :] / Hd[:, None]
        bad = np.abs(D1["N"] - expN) > rel * np.abs(expN) + sliver + 1e-300
        if np.any(bad):
            j, k = [int(x) for x in np.argwhere(bad)[0]]
            rec.violation("remesh/%s/ndens-not-overlap-weighted" % tag, "target cell %d nuclide #%d: N'=%r, sum N_i h_i/H=%r" % (j, k, D1["N"][j, k], expN[j, k]), w)
    elif D0 is not None:
        rec.hit("ndens.untouched")
        if not np.array_equal(D0["N"], D1["N"]):
            rec.violation("remesh/%s/ndens-changed-without-mapNumberDensities" % tag, "number densities of the destination changed although mapNumberDensities=False", w)
    # ---- parameters
    for name, sv in S["p"].items():
        kind = kinds[name]
        if kind == "other":
            continue
        nn = [not is_none(v) for v in sv]
        if kind == "peak" and any(nn[i] and float(np.min(as_num(sv[i]))) < 0 for i in range(len(sv))):
            rec.skip("negative peak value: armi starts peaks from 0, outside the physical domain")
            continue
        arrshape = "array" if any(nn[i] and isinstance(sv[i], (list, tuple, np.ndarray)) for i in range(len(sv))) else "scalar"
        prior = (lambda j: D0["p"][name][j]) if D0 is not None else (lambda j: defaults[name])
        got = D1["p"][name]
        touched = []
        okblock = True
        for j in range(nd):
            Ipos = [i for i in range(len(sv)) if positive[j, i]]
            Idef = [i for i in range(len(sv)) if definite[j, i]]
            vpos = [i for i in Ipos if nn[i]]
            vdef = [i for i in Idef if nn[i]]
            if not vpos:  # nothing set underneath: destination keeps what it had
                rec.hit("param.unset")
                if not same(got[j], prior(j)):
                    rec.violation("param/%s/unset-source-overwrote-destination" % tag, "%s of target cell %d was %r, all overlapped source values unset, now %r" % (name, j, prior(j), got[j]), dict(w, param=name))
                    okblock = False
                continue
            if not vdef:
                rec.skip("only a sub-EPS sliver of a set value under the cell: set/unset ambiguous")
                touched.append(None)
                continue
            touched.append(j)
            if kind == "peak":
                rec.hit("param.peak.block")
                e1 = max([0.0] + [float(sv[i]) for i in vdef])
                amb = [float(sv[i]) for i in vpos if i not in vdef and float(sv[i]) >= e1]  # sub-2*EPS slivers may or may not count
                if is_none(got[j]) or not (float(got[j]) == e1 or float(got[j]) in amb):
                    rec.violation("param/%s/peak-not-max-of-overlapped" % tag, "%s of target cell %d = %r, max of overlapped source values = %r" % (name, j, got[j], e1), dict(w, param=name))
                    okblock = False
                continue
            if kind == "avg" and len(vpos) != len(Ipos):
                rec.skip("averaged parameter over a mix of set and unset source values: law not stated")
                continue
            den = (lambda i: hs[i]) if kind == "int" else (lambda i: Hd[j])
            terms = [as_num(sv[i]) * (O[j, i] / den(i)) for i in vpos]
            exp = sum(terms[1:], terms[0])
            scale = sum(np.abs(t) for t in terms)
            slv = sum(np.abs(as_num(sv[i])) * (2 * EPS * hs[i] / den(i)) for i in vpos)
            rec.hit("param.integrated.block" if kind == "int" else "param.averaged.block")
            if is_none(got[j]) or not close(got[j], exp, rel * scale + slv + 1e-300):
                rec.violation("param/%s/%s-not-overlap-weighted/%s" % (tag, "integrated" if kind == "int" else "averaged", arrshape),
                              "%s of target cell %d = %r, expected %r (%s)" % (name, j, got[j], exp, "sum p_i*overlap/h_i" if kind == "int" else "sum p_i*overlap/H"), dict(w, param=name))
                okblock = False
        if not okblock or not any(nn):
            continue
        # ---- totals / profile laws
        if any(t is None for t in touched):
            continue
        setv = [as_num(sv[i]) for i in range(len(sv)) if nn[i]]
        if kind == "int":
            rec.hit("param.integrated.total")
            e = sum(setv[1:], setv[0])
            g_ = [as_num(got[j]) for j in touched]
            g = sum(g_[1:], g_[0])
            sc = sum(np.abs(v) for v in setv)
            if not close(g, e, crel * sc + 1e-300):
                rec.violation("param/%s/integrated-total-not-conserved/%s" % (tag, arrshape), "sum over blocks of %s: source %r, target %r" % (name, e, g), dict(w, param=name))
        elif kind == "avg" and all(nn):
            if all(same(v, setv[0]) for v in setv):
                rec.hit("param.constant")
                for j in touched:
                    # a sub-EPS sliver of one source cell may be ignored (documented filter): relative effect <= EPS*h_src/H_dst
                    if not close(got[j], setv[0], (crel + 2 * EPS * float(hs.max()) / Hd[j]) * np.abs(setv[0]) + 1e-300):
                        rec.violation("param/%s/constant-profile-not-constant/%s" % (tag, arrshape), "%s constant %r over the source, target cell %d holds %r" % (name, setv[0], j, got[j]), dict(w, param=name))
                        break
            rec.hit("param.averaged.integral")
            e = sum(v * h for v, h in zip(setv, hs))
            g = sum(as_num(got[j]) * Hd[j] for j in touched)
            sc = sum(np.abs(v) * h for v, h in zip(setv, hs))
            if len(touched) == nd and not close(g, e, crel * sc + 1e-300):
                rec.violation("param/%s/averaged-height-integral-not-conserved/%s" % (tag, arrshape), "sum p*h of %s: source %r, target %r" % (name, e, g), dict(w, param=name))
        elif kind == "peak":
            rec.hit("param.peak.global")
            e = max([0.0] + [float(v) for v in setv])
            g = max(float(got[j]) for j in touched)
            if g != e:
                rec.violation("param/%s/peak-global-max-changed" % tag, "max over blocks of %s: source %r, target %r" % (name, e, g), dict(w, param=name))


# ----------------------------------------------------------------------------- assembly x mesh cases
def build_case_assembly(rng):
    from vlib import gen

    pitch = rng.uniform(8, 16)
    nb = rng.randint(2, 12)
    kinds = [rng.choice(KINDS) for _ in range(nb)]
    if rng.random() < .5:
        kinds[0] = "shield"
    bss = [gen.pin_block_spec(rng, kind=k, pitch=pitch) for k in kinds]
    hs = gen_heights(rng, nb)
    a = gen.build_assembly(bss, hs, name=rng.choice(["fuel", "fuel", "control", "reflector"]), xstypes=[rng.choice("ABCD") for _ in range(nb)])
    for b, k in zip(a, kinds):
        b.setType(k)
    return a, kinds, hs, bss


def do_assemblies(spec, rec):
    from armi.reactor import blocks as _blocks

    pools = INT_SCALARS + INT_ARRAYS + AVG_SCALARS + AVG_ARRAYS + PEAKS
    declared = param_kinds(_blocks.HexBlock("fuel"), pools)
    rec.note("judged_parameter_kinds", declared)
    wrong = [n for n in pools if declared[n] != ("int" if n in INT_SCALARS + INT_ARRAYS else "peak" if n in PEAKS else "avg")]
    if wrong:
        rec.note("parameters_whose_declared_location_differs_from_the_harness_pool", wrong)
    for i in range(spec["n"]):
        rng = random.Random("%s:%d" % (spec["rng"], i))
        try:
            a, kinds, hs, bss = build_case_assembly(rng)
        except Exception as e:
            rec.crash("build-assembly", e, {"case": i})
            continue
        one_remesh_case(rec, rng, a, kinds, hs, i)
        if i % 2 == 0:
            interval_cases(rec, rng, i)
        if i % 4 == 1:
            blockmesh_case(rec, rng, i)


def one_remesh_case(rec, rng, a, kinds, hs, i, sample_ok=True):
    from armi.reactor.converters import uniformMesh as um

    conv = um.UniformMeshGeometryConverter
    blocks = list(a)
    src_tops = tops_of(hs)
    mkind, mesh = gen_mesh(rng, src_tops)
    names = choose_params(rng)
    pk = param_kinds(blocks[0], names)
    dflt = param_defaults(blocks[0], names)
    prof = set_profiles(rng, blocks, names, pk)
    nucs = sorted(set(a.getNuclides()))
    back_nd = rng.random() < .6
    w = {"case": i, "block_kinds": kinds, "heights": hs, "mesh_kind": mkind, "target_mesh": mesh, "params": prof, "back_mapNumberDensities": back_nd}
    S = snapshot(a, nucs, names)
    try:
        pm = um.ParamMapper([], list(names), blocks[0])
        n = conv.makeAssemWithUniformMesh(a, list(mesh), paramMapper=pm, mapNumberDensities=True)
    except Exception as e:
        rec.crash("makeAssemWithUniformMesh", e, w)
        return
    try:
        S_after = snapshot(a, nucs, names)
        if not (np.array_equal(S["N"], S_after["N"]) and S["h"] == S_after["h"] and all(same(x, y) for nm in names for x, y in zip(S["p"][nm], S_after["p"][nm]))):
            rec.violation("remesh/forward/source-assembly-modified", "makeAssemWithUniformMesh changed the source assembly", w)
        D1 = snapshot(n, nucs, names)
        rec.hit("mesh.applied")
        want = list(np.diff([0.0] + list(mesh)))
        ztops = [b.p.ztop for b in n]
        if len(D1["h"]) != len(mesh) or any(abs(x - y) > 0 for x, y in zip(D1["h"], want)) or any(abs(x - y) > TOLERANCES["mesh_abs"] for x, y in zip(ztops, mesh)):
            rec.violation("remesh/forward/target-mesh-not-applied", "new assembly has block heights %r / tops %r for requested mesh %r" % (D1["h"], ztops, mesh), w)
            return
        O = overlap_matrix(src_tops, mesh)
        judge_map(rec, S, None, D1, O, pk, True, w, "forward", defaults=dflt)
        # ---- backward: state of the new assembly mapped onto the original (detailed) assembly
        if rng.random() < .35:  # something was computed on the new mesh
            prof2 = set_profiles(rng, list(n), names, pk)
            w = dict(w, params_on_target=prof2)
            D1 = snapshot(n, nucs, names)
            changed = True
        else:
            changed = False
        A0 = snapshot(a, nucs, names)
        conv.setAssemblyStateFromOverlaps(n, a, pm, mapNumberDensities=back_nd)
        A1 = snapshot(a, nucs, names)
        judge_map(rec, D1, A0, A1, O.T.copy(), pk, back_nd, w, "backward")
        if not changed:
            roundtrip(rec, S, A1, pk, back_nd, w)
    except Exception as e:
        rec.crash("remesh-case", e, w)
        return
    sig = ["asm", sorted(set(kinds)), len(kinds), mkind, len(mesh), sorted("%s:%s" % (pk[nm], p) for nm, p in prof.items()), back_nd]
    rec.case(sig, nontrivial=mkind != "identical", sample=w if (sample_ok and i < 2) else None)


def roundtrip(rec, S, A1, kinds, mapped_nd, w):
    crel = 2 * TOLERANCES["conserve_rel"]
    hs = np.asarray(S["h"], float)
    if mapped_nd:
        rec.hit("roundtrip.atoms")
        a0, a1 = S["N"].T @ S["V"], A1["N"].T @ A1["V"]
        if np.any(np.abs(a1 - a0) > crel * np.maximum(np.abs(a0), np.abs(a1)) + 1e-300):
            k = int(np.argmax(np.abs(a1 - a0) / np.maximum(np.abs(a0), 1e-300)))
            rec.violation("roundtrip/atoms-not-restored", "nuclide #%d: %r atoms before, %r after source->target->source" % (k, a0[k], a1[k]), w)
    for name, sv in S["p"].items():
        if any(is_none(v) for v in sv) or any(is_none(v) for v in A1["p"][name]):
            continue
        kind = kinds[name]
        v0, v1 = [as_num(v) for v in sv], [as_num(v) for v in A1["p"][name]]
        if kind == "int":
            rec.hit("roundtrip.integrated")
            e, g, sc = sum(v0[1:], v0[0]), sum(v1[1:], v1[0]), sum(np.abs(v) for v in v0)
            if not close(g, e, crel * sc + 1e-300):
                rec.violation("roundtrip/integrated-total-not-restored", "sum of %s: %r before, %r after the round trip" % (name, e, g), dict(w, param=name))
        elif kind == "avg":
            rec.hit("roundtrip.averaged")
            e, g = sum(v * h for v, h in zip(v0, hs)), sum(v * h for v, h in zip(v1, hs))
            sc = sum(np.abs(v) * h for v, h in zip(v0, hs))
            if not close(g, e, crel * sc + 1e-300):
                rec.violation("roundtrip/averaged-height-integral-not-restored", "sum p*h of %s: %r before, %r after the round trip" % (name, e, g), dict(w, param=name))
        elif kind == "peak" and min(float(v) for v in v0) >= 0:
            rec.hit("roundtrip.peak")
            if max(float(v) for v in v1) != max([0.0] + [float(v) for v in v0]):
                rec.violation("roundtrip/peak-max-not-restored", "max of %s: %r before, %r after" % (name, max(v0), max(v1)), dict(w, param=name))


# ----------------------------------------------------------------------------- interval queries
def interval_cases(rec, rng, i):
    try:
        a, kinds, hs, _ = build_case_assembly(rng)
    except Exception as e:
        rec.crash("build-assembly", e, {"case": i})
        return
    blocks = list(a)
    tp = tops_of(hs)
    bt = [0.0] + tp[:-1]
    H = tp[-1]
    EPS = TOLERANCES["overlap_eps_fraction"]

    def pick():
        r = rng.random()
        if r < .3:
            return rng.choice([0.0] + tp)
        if r < .5:
            return min(max(rng.choice(tp) + rng.choice([-1, 1]) * 10 ** rng.uniform(-9, -2), 0.0), H)
        return rng.uniform(0, H)

    for q in range(12):
        z0, z1 = sorted((pick(), pick()))
        w = {"heights": hs, "zLower": z0, "zUpper": z1}
        if q == 10:  # partially / entirely outside: recorded, not judged
            z0, z1 = rng.choice([(-5.0, tp[0] / 2), (H - hs[-1] / 2, H + 7.0), (H + 1.0, H + 2.0), (-3.0, -1.0)])
            try:
                res = a.getBlocksBetweenElevations(z0, z1)
                rec.skip("interval not inside the assembly: returned %d blocks" % len(res))
            except Exception as e:
                rec.skip("interval not inside the assembly: raised " + type(e).__name__)
            continue
        if z1 - z0 <= 0:
            continue
        try:
            res = a.getBlocksBetweenElevations(z0, z1)
        except Exception as e:
            rec.crash("getBlocksBetweenElevations", e, w)
            continue
        rec.hit("interval.partition")
        ov = [max(0.0, min(z1, t) - max(z0, b)) for b, t in zip(bt, tp)]
        must = [k for k in range(len(hs)) if ov[k] > 2 * EPS * hs[k]]
        may = [k for k in range(len(hs)) if ov[k] > 0]
        idx = [blocks.index(b) for b, _h in res]
        w = dict(w, returned=[[k, h] for k, (_b, h) in zip(idx, res)])
        if idx != sorted(set(idx)) or not set(must) <= set(idx) or not set(idx) <= set(may):
            rec.violation("interval/wrong-blocks", "getBlocksBetweenElevations(%r,%r) reports blocks %r, overlapped blocks are %r" % (z0, z1, idx, must), w)
            continue
        if any(not (h > 0) for _b, h in res) or any(abs(h - ov[k]) > TOLERANCES["interval_abs"] * H for k, (_b, h) in zip(idx, res)):
            rec.violation("interval/wrong-overlap-height", "getBlocksBetweenElevations(%r,%r) heights %r, harness overlaps %r" % (z0, z1, [h for _b, h in res], [ov[k] for k in idx]), w)
        if abs(sum(h for _b, h in res) - (z1 - z0)) > 2 * EPS * sum(hs) + 1e-12 * H:
            rec.violation("interval/heights-do-not-sum-to-length", "overlaps sum to %r, interval length %r" % (sum(h for _b, h in res), z1 - z0), w)
        rec.case(["interval", len(hs), z0 in tp or z0 == 0, z1 in tp, len(idx)], nontrivial=len(idx) > 1)
    for q in range(8):
        z = pick()
        w = {"heights": hs, "elevation": z}
        if z <= 0:
            rec.skip("getBlockAtElevation(0): no block has its bottom strictly below 0; not judged")
            continue
        try:
            b = a.getBlockAtElevation(z)
        except Exception as e:
            rec.crash("getBlockAtElevation", e, w)
            continue
        rec.hit("blockAtElevation")
        ok = [k for k in range(len(hs)) if bt[k] < z <= tp[k]]  # documented: the exact top belongs to the block
        fuzzy = [k for k in range(len(hs)) if abs(tp[k] - z) <= 1e-9 * z or abs(bt[k] - z) <= 1e-9 * z]
        got = blocks.index(b) if b is not None else None
        if got not in ok and got not in fuzzy:
            rec.violation("blockAtElevation/wrong-block", "getBlockAtElevation(%r) returned block %r, the block with bottom < z <= top is %r" % (z, got, ok), w)


# ----------------------------------------------------------------------------- in-place mesh change with / without mass conservation
def blockmesh_case(rec, rng, i):
    from armi.materials.material import Fluid
    from armi.reactor.flags import Flags

    try:
        a, kinds, hs, _ = build_case_assembly(rng)
    except Exception as e:
        rec.crash("build-assembly", e, {"case": i})
        return
    blocks = list(a)
    tp = tops_of(hs)
    mode = rng.choice([True, False, "auto", "setHeight"])
    w = {"case": i, "block_kinds": kinds, "assembly_type": a.getType(), "heights": hs, "mode": mode}
    comps = [[c for c in b] for b in blocks]
    N0 = [[dict(c.p.numberDensities) for c in cs] for cs in comps]
    try:
        if mode == "setHeight":
            k = rng.randrange(len(blocks))
            b = blocks[k]
            newh = hs[k] * rng.uniform(.5, 1.8)
            nucs = list(b.getNuclides())
            at0 = np.array(b.getNuclideNumberDensities(nucs)) * b.getVolume()
            b.setHeight(newh, conserveMass=True, adjustList=nucs)
            rec.hit("setHeight.conserve")
            at1 = np.array(b.getNuclideNumberDensities(nucs)) * b.getVolume()
            if b.getHeight() != newh or np.any(np.abs(at1 - at0) > TOLERANCES["conserve_rel"] * np.abs(at0) + 1e-40):
                rec.violation("setHeight/conserveMass/atoms-not-conserved", "Block.setHeight(%r, conserveMass=True): atoms %r -> %r" % (newh, at0.tolist()[:4], at1.tolist()[:4]), w)
            frac = rng.uniform(.3, 1.7)
            m1 = b.getMass()
            dm = b.adjustDensity(frac, nucs, returnMass=True)
            rec.hit("adjustDensity.mass")
            m2 = b.getMass()
            if abs((m2 - m1) - dm) > 1e-9 * max(abs(m1), abs(m2)):
                rec.violation("adjustDensity/returned-mass-differs-from-mass-change", "adjustDensity(%r) returned %r, block mass changed by %r" % (frac, dm, m2 - m1), w)
            rec.case(["setHeight", kinds[k]], nontrivial=True)
            return
        # new mesh with the same number of cells
        new = []
        prev = 0.0
        for k, t in enumerate(tp):
            lo = prev + .2 * hs[k]
            hi = t + (.5 * hs[k + 1] if k + 1 < len(hs) else .3 * hs[k])
            z = rng.uniform(lo, max(hi, lo + 1e-3)) if rng.random() < .8 else max(t, lo)
            new.append(z)
            prev = z
        w["new_mesh"] = new
        for k, b in enumerate(blocks):
            b.p.topIndex = k
        a.setBlockMesh(list(new), conserveMassFlag=mode)
        rec.hit("setBlockMesh")
        want = list(np.diff([0.0] + new))
        if any(b.getHeight() != h for b, h in zip(blocks, want)) or any(abs(b.p.ztop - z) > TOLERANCES["mesh_abs"] for b, z in zip(blocks, new)):
            rec.violation("setBlockMesh/mesh-not-applied", "heights %r for requested %r" % ([b.getHeight() for b in blocks], want), w)
            return
        below = True
        for k, b in enumerate(blocks):
            if b.hasFlags(Flags.FUEL):
                below = False
            ratio = hs[k] / want[k]
            for c, n0 in zip(comps[k], N0[k]):
                if mode is True:
                    keep = True
                elif mode is False:
                    keep = False
                elif b.hasFlags(Flags.FUEL):  # documented rule set of conserveMassFlag="auto"
                    keep = c.hasFlags(Flags.FUEL)
                elif a.hasFlags(Flags.FUEL):
                    keep = below and not isinstance(c.material, Fluid)
                else:
                    keep = False
                f = ratio if keep else 1.0
                for nuc, v in n0.items():
                    g = c.p.numberDensities.get(nuc, 0.0)
                    if abs(g - v * f) > TOLERANCES["conserve_rel"] * abs(v * f) + 1e-45:
                        rec.violation("setBlockMesh/%s/%s" % (mode, "mass-not-conserved" if keep else "density-changed"),
                                      "block %d (%s) component %s nuclide %s: N %r -> %r, expected %r (height %r -> %r)" % (k, kinds[k], c.name, nuc, v, g, v * f, hs[k], want[k]), w)
                        return
        rec.case(["setBlockMesh", str(mode), a.getType(), sorted(set(kinds))], nontrivial=True)
    except Exception as e:
        rec.crash("blockmesh/%s" % mode, e, w)


# ============================================================================= reactors: mesh generator, convert, applyStateToOriginal
DESIGNS = [("igniter fuel", "fuel"), ("feed fuel", "fuel"), ("primary control", "control"), ("radial reflector", "reflector"), ("radial shield", "shield")]
IN_CANDIDATES = ["molesHmBOL", "massHmBOL", "mgFlux", "adjMgFlux", "mgNeutronVelocity", "extSrc"]
OUT_CANDIDATES = ["power", "pdens", "flux", "mgFlux", "fluxPeak", "ppdens", "linPow", "fastFlux", "adjMgFlux", "extSrc", "mgNeutronVelocity", "rateFis",
                  "powerGamma", "powerNeutron", "powerGenerated", "pdensGamma", "ppdensGamma", "mgFluxGamma", "fluxAdjPeak", "kInf"]


def rx_spec(rng):
    from vlib import gen

    pitch = rng.uniform(9, 16)
    nblocks = rng.randint(3, 7)
    heights = [round(rng.uniform(8, 40), 3) for _ in range(nblocks)]
    nd = rng.randint(2, 4)
    designs = [DESIGNS[0]] + rng.sample(DESIGNS[1:], nd - 1)
    fuel_at_bottom = rng.random() < .07
    spec = {"blocks": {}, "assemblies": {}, "grids": {}}
    specs = []
    for d, (aname, main) in enumerate(designs):
        inner = nblocks - 2
        lo = rng.randrange(inner)
        hi = rng.randint(lo, inner - 1)
        kinds = []
        for k in range(nblocks):
            if k == 0:
                kinds.append("fuel" if (main == "fuel" and fuel_at_bottom) else "shield")
            elif k == nblocks - 1:
                kinds.append(rng.choice(["shield", "plenum"]))
            elif lo <= k - 1 <= hi:
                kinds.append(main)
            else:
                kinds.append("plenum" if k - 1 > hi else rng.choice(["shield", "reflector"]))
        names = []
        for k, kind in enumerate(kinds):
            nm = "%s %d" % (kind, 20 * d + k)
            spec["blocks"][nm] = gen.pin_block_spec(rng, kind=kind, pitch=pitch, npins=rng.choice([1, 7, 19]))
            names.append(nm)
        amp = [rng.choice([1, 1, 1, 2, 3]) for _ in range(nblocks)] if rng.random() < .4 else [1] * nblocks
        spec["assemblies"][aname] = {"specifier": "A%d" % d, "blocks": names, "height": heights, "axial mesh points": amp,
                                     "xs types": [rng.choice("ABCD") for _ in range(nblocks)]}
        specs.append("A%d" % d)
    sym = rng.choice(["full", "third periodic"])
    cells = gen.hex_cells(rng.randint(2, 3))
    if sym.startswith("third"):
        cells = [c for c in cells if gen.in_first_third(*c)]
    contents = {c: rng.choice(specs) for c in cells if c == (0, 0) or rng.random() > .1}
    contents[(0, 0)] = "A0"
    spec["grids"]["core"] = {"geom": "hex", "symmetry": sym, "contents": contents}
    return spec, {"designs": {a: spec["assemblies"][a]["blocks"] for a in spec["assemblies"]}, "heights": heights, "symmetry": sym,
                  "axial_mesh_points": {a: spec["assemblies"][a]["axial mesh points"] for a in spec["assemblies"]}, "fuel_at_bottom": fuel_at_bottom}


def perturb_heights(rng, core, mode):
    """Change block heights per assembly keeping every assembly's total height (the property's domain)."""
    if mode == "none":
        return
    for a in core:
        if mode == "large" and rng.random() < .4:
            amp = rng.uniform(.05, .3)
        else:
            amp = rng.uniform(0, .03)
        blocks = list(a)
        hs = [b.getHeight() for b in blocks]
        new = [h * (1 + amp * rng.uniform(-1, 1)) for h in hs[:-1]]
        last = sum(hs) - sum(new)
        if last < 2.0:
            continue
        for b, h in zip(blocks, new + [last]):
            b.p.height = h
            b.clearCache()
        a.calculateZCoords()


def perturb_by_design(rng, core):
    """All assemblies of one design get the same new block heights (designs expand differently): few distinct material boundaries."""
    factors = {}
    for a in core:
        blocks = list(a)
        f = factors.setdefault(a.getType(), [1 + rng.choice([.02, .1, .18]) * rng.uniform(-1, 1) for _ in blocks[:-1]])
        hs = [b.getHeight() for b in blocks]
        new = [h * x for h, x in zip(hs, f)]
        last = sum(hs) - sum(new)
        if last < 2.0:
            continue
        for b, h in zip(blocks, new + [last]):
            b.p.height = h
            b.clearCache()
        a.calculateZCoords()


def perturb_outliers(rng, core):
    """A minority of assemblies gets a first block 30-80 % taller or shorter: their meshes are farther than 20 % from the mean."""
    assems = list(core)
    for a in rng.sample(assems, min(len(assems), rng.randint(1, max(1, len(assems) // 3)))):
        blocks = list(a)
        hs = [b.getHeight() for b in blocks]
        h0 = hs[0] * (1 + rng.uniform(.3, .8) * rng.choice([-1, 1]))
        last = hs[-1] - (h0 - hs[0])
        if last < 2.0 or h0 < 2.0:
            continue
        for b, h in zip(blocks, [h0] + hs[1:-1] + [last]):
            b.p.height = h
            b.clearCache()
        a.calculateZCoords()


def pick_minimum_sizes(rng, r, avg, k):
    """Minimum sizes around the gaps that decide the outcome: between anchored material boundaries (incl. exactly a gap), between them
    and the core ends, between average-mesh points, plus the fixed list."""
    ub, _ = material_bounds(r.core)
    ends = sorted(set(ub) | {0.0, float(avg[-1])})
    gaps_b = sorted({y - x for x, y in zip(ub, ub[1:]) if y - x > 1e-6})
    gaps_e = sorted({y - x for x, y in zip(ends, ends[1:]) if y - x > 1e-6})
    gaps_m = sorted({float(y - x) for x, y in zip(avg, avg[1:])} | {float(avg[0])})
    out = []
    for _ in range(k):
        t = rng.random()
        if t < .3 and gaps_b:
            g = gaps_b[0] if rng.random() < .6 else rng.choice(gaps_b)
            out.append(g * rng.choice([.5, .9, 1.0, 1.0, 1.1, 2.0]))
        elif t < .45 and gaps_e:
            out.append((gaps_e[0] if rng.random() < .6 else rng.choice(gaps_e)) * rng.choice([.5, .999, 1.0, 1.001, 1.5]))
        elif t < .6:
            out.append(rng.choice(gaps_m) * rng.choice([.5, .999, 1.0, 1.001, 1.5, 2.5]))
        else:
            out.append(rng.choice([.5, 1.0, 2.0, 3.0, 5.0, 8.0, 12.0, rng.uniform(.1, 15), rng.uniform(10, 45)]))
    return [m for m in out if m > 0]


def do_meshgen(spec, rec):
    """Many cores x height perturbations x minimum sizes through the mesh generator only (cheap: nothing is converted)."""
    from vlib import gen

    for i in range(spec["n"]):
        rng = random.Random("%s:%d" % (spec["rng"], i))
        sp, w = rx_spec(rng)
        w["case"] = i
        try:
            r, cs, bp, text = gen.build_reactor(sp)
        except Exception as e:
            rec.crash("build-reactor", e, w)
            continue
        history = []
        for rnd in range(3):
            mode = rng.choice(["none", "bydesign", "bydesign"] if rnd == 0 else ["small", "large", "bydesign", "outlier", "outlier"])
            history.append(mode)
            if mode == "bydesign":
                perturb_by_design(rng, r.core)
            elif mode == "outlier":
                perturb_outliers(rng, r.core)
            else:
                perturb_heights(rng, r.core, mode)
            ww = dict(w, perturbations=list(history), block_heights={a.getName(): [b.getHeight() for b in a] for a in r.core})
            avg = average_case(rec, r, ww)
            if avg is None:
                continue
            for m in pick_minimum_sizes(rng, r, avg, 4):
                decusp_case(rec, r, m, avg, ww)


def fine_mesh(a):
    pts, z = [], 0.0
    for b in a:
        h, n = b.getHeight(), int(b.p.axMesh)
        pts += [z + k * h / n for k in range(1, n + 1)]
        z += h
    return pts


def do_reactors(spec, rec):
    from vlib import gen

    for i in range(spec["n"]):
        rng = random.Random("%s:%d" % (spec["rng"], i))
        sp, w = rx_spec(rng)
        w["case"] = i
        try:
            r, cs, bp, text = gen.build_reactor(sp)
        except Exception as e:
            rec.crash("build-reactor", e, w)
            continue
        mode = rng.choice(["small", "small", "large", "none"])
        w["perturbation"] = mode
        perturb_heights(rng, r.core, mode)
        reactor_case(rec, rng, r, cs, w, sample=i < 1)


def do_testreactors(spec, rec):
    from armi.testing import loadTestReactor, reduceTestReactorRings
    from armi.tests import TEST_ROOT
    from vlib.env import quiet
    import os

    for i in range(spec["n"]):
        rng = random.Random("%s:%d" % (spec["rng"], i))
        which = ["refSmallReactor", "detailedAxialExpansion", "refSmallReactor"][i % 3]
        rings = rng.choice([3, 4, 5])
        w = {"test_reactor": which, "rings": rings, "case": i}
        try:
            with quiet():
                if which == "refSmallReactor":
                    o, r = loadTestReactor(TEST_ROOT, customSettings={"xsKernel": "MC2v2"})
                    reduceTestReactorRings(r, o.cs, rings)
                else:
                    o, r = loadTestReactor(os.path.join(TEST_ROOT, "detailedAxialExpansion"), customSettings={"xsKernel": "MC2v2"})
        except Exception as e:
            rec.crash("load-test-reactor", e, w)
            continue
        mode = rng.choice(["small", "small", "none"])
        w["perturbation"] = mode
        perturb_heights(rng, r.core, mode)
        reactor_case(rec, rng, r, o.cs, w, sample=False)
        # then assemblies of the test reactor through the assembly-level workload (afterwards: that workload leaves arrays of
        # different lengths on blocks it did not touch, which would not be a valid state for convert())
        for a in rng.sample(list(r.core), min(4, len(r.core))):
            hs = [b.getHeight() for b in a]
            one_remesh_case(rec, rng, a, [b.getType() for b in a], hs, "%s-%d-%s" % (which, i, a.getName()), sample_ok=False)


def mean_of_rows_within_tolerance(rows, avg, tol, slack, abs_tol):
    """Is `avg` the column mean of some set K of rows that all lie within `tol` (relative) of it?  Brute force over the subsets of the
    rows that are within tol of avg (rows farther away cannot belong to K). None: too many rows to enumerate."""
    C = rows[(np.abs(rows - avg) / avg).max(axis=1) <= tol * (1 + slack) + abs_tol / avg.min()]
    n = len(C)
    if n == 0:
        return False
    if n > 16:
        return None
    for lo in range(1, 2 ** n, 4096):
        masks = np.arange(lo, min(lo + 4096, 2 ** n))
        sel = ((masks[:, None] >> np.arange(n)[None, :]) & 1).astype(float)
        means = (sel @ C) / sel.sum(axis=1)[:, None]
        hit = np.all(np.abs(means - avg) <= abs_tol, axis=1)
        for k in np.nonzero(hit)[0]:
            K = C[sel[k] > 0]
            if (np.abs(K - means[k]) / means[k]).max() <= tol * (1 + slack) + abs_tol / avg.min():
                return True
    return False


def average_case(rec, r, w):
    """_computeAverageAxialMesh against the column mean of the harness's own fine meshes. Returns the average mesh or None."""
    from armi.reactor.converters import uniformMesh as um
    from vlib.env import quiet

    core = r.core
    avg = None
    try:
        g = um.UniformMeshGenerator(r, None)
        with quiet():
            g._computeAverageAxialMesh()
        avg = np.array(g._commonMesh, float)
        ref = core.refAssem
        nref = len(fine_mesh(ref))
        rows = np.array([fine_mesh(a) for a in core if len(fine_mesh(a)) == nref], float)
        rec.hit("commonmesh.average")
        mean = rows.mean(axis=0)
        dev = np.abs(rows - mean) / mean
        ww = dict(w, average_mesh=avg.tolist(), column_mean=mean.tolist(), rows=len(rows))
        if avg.shape != mean.shape or np.any(np.diff(np.concatenate([[0.0], avg])) <= 0):
            rec.violation("commonmesh/average-not-increasing-or-wrong-length", "average mesh %r for %d-point reference assembly" % (avg.tolist(), nref), ww)
        elif dev.max() < .2 * (1 - 1e-6):
            rec.hit("commonmesh.average.all-within")
            if np.any(np.abs(avg - mean) > TOLERANCES["avgmesh_abs"]):
                rec.violation("commonmesh/average-differs-from-column-mean", "every assembly mesh is within 20%% of the mean, yet average mesh %r != column mean %r" % (avg.tolist(), mean.tolist()), ww)
        else:
            rec.hit("commonmesh.average.filtered")
            if np.any(avg < rows.min(axis=0) - TOLERANCES["avgmesh_abs"]) or np.any(avg > rows.max(axis=0) + TOLERANCES["avgmesh_abs"]):
                rec.violation("commonmesh/average-outside-range-of-assembly-meshes", "average mesh %r outside [min,max] of the assembly meshes" % avg.tolist(), ww)
            else:
                ok = mean_of_rows_within_tolerance(rows, avg, .2, 1e-6, TOLERANCES["avgmesh_abs"])
                if ok is None:
                    rec.skip("filtered average mesh over more than 16 near assembly meshes: subset oracle not enumerated (range check only)")
                else:
                    rec.hit("commonmesh.average.filtered.subset")
                    if not ok:
                        rec.violation("commonmesh/average-not-the-mean-of-meshes-within-tolerance", "average mesh %r is not the column mean of any set of assembly meshes that all lie within 20%% of it" % avg.tolist(), dict(ww, rows_list=rows.tolist()))
    except ValueError as e:
        if "Nothing was near the mean" in str(e):
            rec.reject("average mesh refused: no assembly mesh within 20% of the mean")
        else:
            rec.crash("computeAverageAxialMesh", e, w)
    except Exception as e:
        rec.crash("computeAverageAxialMesh", e, w)
    return avg


def reactor_case(rec, rng, r, cs, w, sample=False):
    # ------------------------------------------------------------------ average mesh
    avg = average_case(rec, r, w)
    # ------------------------------------------------------------------ decusped mesh
    minsize = rng.choice([.5, 1.0, 2.0, 3.0, 5.0, 8.0, 12.0, rng.uniform(.1, 15)])
    if avg is not None:
        decusp_case(rec, r, minsize, avg, w)
    # ------------------------------------------------------------------ convert / applyStateToOriginal
    news = {}
    use_min = rng.random() < .4
    if use_min:
        news["uniformMeshMinimumSize"] = min(minsize, 3.0)
    nonuni = rng.random() < .45
    if nonuni:
        pool = ["control", "reflector", "shield", "feed fuel", "primary control"]
        names = {a.getType() for a in r.core}
        present = [f for f in pool if any(f in n for n in names)]  # a flag group that matches nothing exercises nothing
        news["nonUniformAssemFlags"] = [rng.choice(present if present and rng.random() < .85 else pool)]
    gamma = rng.random() < .35
    w = dict(w, settings=news, converter="Gamma" if gamma else "Neutronics")
    try:
        cs2 = cs.modified(newSettings=news) if news else cs
    except Exception as e:
        rec.crash("settings-modified", e, w)
        return
    convert_case(rec, rng, r, cs2, gamma, nonuni, w, sample)


def material_bounds(core):
    """Anchored material boundaries, from the property statement: per fuel (then control) assembly the bottom of its first and the
    top of its last fuel (control) block. Returns (sorted unique list, fuel blocks of fuel assemblies)."""
    from armi.reactor.flags import Flags

    bounds = []
    for fl in (Flags.FUEL, Flags.CONTROL):
        for a in core:
            if not a.hasFlags(fl):
                continue
            fb = [b for b in a if b.hasFlags(fl)]
            if fb:
                bounds += [fb[0].p.zbottom, fb[-1].p.ztop]
    fuel_b = [b for a in core if a.hasFlags(Flags.FUEL) for b in a if b.hasFlags(Flags.FUEL)]
    return sorted(set(bounds)), fuel_b


def decusp_case(rec, r, minsize, avg, w):
    from armi.reactor.converters import uniformMesh as um
    from vlib.env import quiet

    core = r.core
    ub, fuel_b = material_bounds(core)
    # candidate points (property: "uses only candidate points"): the average mesh plus the anchored material boundaries - NOT every
    # block boundary of a fuel/control assembly
    cands = set(float(x) for x in avg) | set(ub)
    separated = all(abs(y - x) >= minsize for x, y in zip(ub, ub[1:]))
    # the bottom (z=0) and the top of the core are boundaries no mesh can drop: a material anchor closer than the minimum to either
    # is "two anchors closer than the minimum" as well, so refusing loudly is an allowed outcome there
    ends = sorted(set(ub) | {0.0, float(avg[-1])})
    separated_ends = all(abs(y - x) >= minsize for x, y in zip(ends, ends[1:]))
    ww = dict(w, minimumMeshSize=minsize, average_mesh=avg.tolist(), material_boundaries=ub)
    g = um.UniformMeshGenerator(r, minsize)
    try:
        with quiet():
            g.generateCommonMesh()
    except ValueError as e:
        rec.hit("commonmesh.decusp.raise-iff")
        if "anchor" in str(e):
            if separated_ends:
                rec.violation("commonmesh/raised-although-anchors-separated", "generateCommonMesh raised %s although all material boundaries, the core bottom and the core top are >= %r apart" % (str(e)[:120], minsize), ww)
            else:
                rec.reject("common mesh refused: two anchors closer than the minimum")
        else:
            rec.crash("generateCommonMesh", e, ww)
        return
    except Exception as e:
        rec.crash("generateCommonMesh", e, ww)
        return
    out = [float(x) for x in g._commonMesh]
    ww["common_mesh"] = out
    rec.hit("commonmesh.decusp")
    rec.hit("commonmesh.decusp.raise-iff")
    if any(y <= x for x, y in zip(out, out[1:])):
        rec.violation("commonmesh/not-strictly-increasing", "common mesh %r" % out, ww)
    rec.hit("commonmesh.candidates", len(out))
    if any(x not in cands for x in out):
        rec.violation("commonmesh/point-not-a-candidate", "common mesh %r holds points %r that are neither average-mesh points nor anchored material boundaries (first bottom / last top of the fuel or control blocks of a fuel or control assembly)" % (out, [x for x in out if x not in cands]), ww)
    if any(abs(y - x) < minsize for x, y in zip(out, out[1:])):
        rec.violation("commonmesh/cell-thinner-than-minimum", "common mesh %r has a cell thinner than %r" % (out, minsize), ww)
    if out and out[0] <= 0.0:
        rec.violation("commonmesh/zero-elevation-kept-as-mesh-point", "common mesh %r starts at %r: the bottom of a fuel/control column at z=0 became a mesh point (zero-height first cell)" % (out, out[0]), ww)
    elif out:
        rec.hit("commonmesh.first-cell")
        if out[0] < minsize:  # the mesh holds cell tops: the first cell is [0, out[0]]
            rec.violation("commonmesh/first-cell-thinner-than-minimum", "common mesh %r: the first cell [0, %r] is thinner than the requested minimum %r (the core bottom z=0 is never shown to the filter)" % (out, out[0], minsize), ww)
    if out and abs(out[-1] - avg[-1]) > 1e-7:
        rec.violation("commonmesh/top-elevation-dropped", "common mesh %r no longer ends at the top %r of the average mesh" % (out, float(avg[-1])), ww)
    if fuel_b:
        lo, hi = min(b.p.zbottom for b in fuel_b), max(b.p.ztop for b in fuel_b)
        if lo not in out and lo > 0 or hi not in out:
            rec.violation("commonmesh/extreme-fuel-boundary-dropped", "lowest fuel bottom %r / highest fuel top %r not both in common mesh %r" % (lo, hi, out), ww)
    if separated:
        rec.hit("commonmesh.decusp.separated")
        miss = [x for x in ub if x not in out and x > 0]
        if miss:
            rec.violation("commonmesh/anchor-dropped", "material boundaries %r (all >= %r apart) missing from common mesh %r" % (miss, minsize, out), ww)
    rec.case(["decusp", len(out), len(ub), separated, minsize >= 5], nontrivial=len(out) != len(avg) or any(x not in set(avg.tolist()) for x in out))


def scaled_again(S, D1, O, name, sf):
    """True when every target value of an integrated parameter equals the overlap law divided by the symmetry factor."""
    hs = np.asarray(S["h"], float)
    sv = S["p"][name]
    for j in range(O.shape[0]):
        idx = [i for i in range(len(sv)) if O[j, i] > 0 and not is_none(sv[i])]
        if not any(O[j, i] > 2 * TOLERANCES["overlap_eps_fraction"] * hs[i] for i in idx):
            continue  # nothing set underneath beyond a sub-EPS sliver: not used for the diagnosis (slivers are far inside the 1e-7 tolerance)
        terms = [as_num(sv[i]) * (O[j, i] / hs[i]) for i in idx]
        exp = sum(terms[1:], terms[0]) / sf
        sc = sum(np.abs(t) for t in terms)
        slv = sum(np.abs(as_num(sv[i])) for i in idx) * 2 * TOLERANCES["overlap_eps_fraction"]
        if is_none(D1["p"][name][j]) or not close(D1["p"][name][j], exp, 1e-7 * sc + slv + 1e-300):
            return False
        if np.any(sc > 0):
            seen = True
    return None if not locals().get("seen") else True  # None: all-zero profile, cannot tell


def convert_case(rec, rng, r, cs, gamma, nonuni, w, sample):
    from armi.reactor.converters import uniformMesh as um
    from armi.reactor.flags import Flags
    from vlib.env import quiet

    core = r.core
    tol = TOLERANCES["reactor_conserve_rel"]
    assems = list(core)
    b0 = core.getFirstBlock()
    nucs = sorted({n for a in assems for n in a.getNuclides()})
    kin = param_kinds(b0, IN_CANDIDATES)
    kout = param_kinds(b0, OUT_CANDIDATES)
    profs = {}
    for a in assems:
        profs[a.getName()] = set_profiles(rng, list(a), IN_CANDIDATES, kin)
    names0 = [a.getName() for a in assems]
    S = {nm: snapshot(a, nucs, IN_CANDIDATES) for nm, a in zip(names0, assems)}
    conv = (um.GammaUniformMeshConverter(cs) if gamma else um.NeutronicsUniformMeshConverter(cs, calcReactionRates=False))
    conv.calcReactionRates = False
    try:
        with quiet():
            conv.convert(r)
    except ValueError as e:
        msg = str(e)
        if "anchor" in msg:
            rec.reject("convert refused: two anchors closer than the minimum mesh size")
        elif "Nothing was near the mean" in msg:
            rec.reject("convert refused: no assembly mesh within 20% of the mean")
        elif "No blocks found between 0.000 and 0.000" in msg:
            rec.violation("commonmesh/zero-elevation-kept-as-mesh-point", "convert() failed: %s" % msg[:300], w)
        else:
            rec.crash("convert", e, w)
        return
    except Exception as e:
        rec.crash("convert", e, w)
        return
    try:
        u = conv.convReactor
        inplace = u is r
        mapped_in = [n for n in IN_CANDIDATES if n in conv.paramMapper.blockParamNames]
        dflt = param_defaults(b0, IN_CANDIDATES)
        pairs = []  # (name, original assembly, converted assembly)
        for nm, a in zip(names0, assems):
            d = u.core.getAssemblyByName(nm)
            if inplace and d is a:
                continue  # not one of the non-uniform assemblies: left alone
            if d is None:
                rec.violation("convert/assembly-missing-after-conversion", "assembly %s has no counterpart in the converted core" % nm, w)
                continue
            pairs.append((nm, a, d))
        if not inplace:
            meshes = {tuple(b.getHeight() for b in d) for _n, _a, d in pairs}
            rec.hit("reactor.convert.uniform")
            if len(meshes) != 1:
                rec.violation("convert/mesh-not-uniform", "converted assemblies do not share one axial mesh: %d different" % len(meshes), w)
            for nm, a in zip(names0, assems):
                now = snapshot(a, nucs, IN_CANDIDATES)
                if not (np.array_equal(now["N"], S[nm]["N"]) and now["h"] == S[nm]["h"] and all(same(x, y) for p in IN_CANDIDATES for x, y in zip(now["p"][p], S[nm]["p"][p]))):
                    rec.violation("convert/source-reactor-modified", "convert() changed assembly %s of the source reactor" % nm, w)
                    break
        for nm, a, d in pairs:
            D1 = snapshot(d, nucs, IN_CANDIDATES)
            st, dt = tops_of(S[nm]["h"]), tops_of(D1["h"])
            ww = dict(w, assembly=nm, source_heights=S[nm]["h"], target_heights=D1["h"], params=profs[nm])
            if abs(st[-1] - dt[-1]) > 1e-6:
                rec.violation("commonmesh/top-elevation-dropped" if dt[-1] < st[-1] else "convert/uniform-mesh-taller-than-assembly",
                              "convert(): assembly %s is %r cm tall, the mesh applied to it ends at %r" % (nm, st[-1], dt[-1]), ww)
                continue
            rec.hit("reactor.convert.atoms")
            Ssub = dict(S[nm], p={n: S[nm]["p"][n] for n in mapped_in})
            sf = d[0].getSymmetryFactor()
            if sf != 1 and not inplace:
                ints = [n for n in mapped_in if kin[n] == "int" and any(not is_none(v) for v in S[nm]["p"][n])]
                O_ = overlap_matrix(st, dt)
                verdicts = [scaled_again(S[nm], D1, O_, n, sf) for n in ints]
                if any(v is True for v in verdicts) and all(v is not False for v in verdicts):
                    rec.hit("reactor.convert.symmetry-line")
                    rec.violation("convert/symmetry-line-assembly/integrated-params-divided-by-symmetry-factor-again",
                                  "assembly %s sits on the symmetry line (factor %r): its volume-integrated parameters %r arrive on the converted assembly divided by %r "
                                  "(mapped from the already-partial source values, then scaled once more when the new assembly is placed in the core)" % (nm, sf, ints, sf), ww)
                    Ssub = dict(S[nm], p={n: S[nm]["p"][n] for n in mapped_in if n not in ints})
            judge_map(rec, Ssub, None, D1, overlap_matrix(st, dt), kin, True, ww, "forward", defaults=dflt, tol_rel=tol)
        # ---- something is computed on the converted core, then mapped back
        U, A0, pro2 = {}, {}, {}
        for nm, a, d in pairs:
            pro2[nm] = set_profiles(rng, list(d), OUT_CANDIDATES, kout)
            U[nm] = snapshot(d, nucs, OUT_CANDIDATES)
            A0[nm] = snapshot(a, nucs, OUT_CANDIDATES)
        with quiet():
            conv.applyStateToOriginal()
        mapped_out = [n for n in OUT_CANDIDATES if n in conv.paramMapper.blockParamNames]
        for nm, a, d in pairs:
            A1 = snapshot(a, nucs, OUT_CANDIDATES)
            ww = dict(w, assembly=nm, source_heights=U[nm]["h"], target_heights=A1["h"], params=pro2[nm], direction="applyStateToOriginal")
            rec.hit("reactor.apply.params")
            Usub = dict(U[nm], p={n: U[nm]["p"][n] for n in mapped_out})
            judge_map(rec, Usub, A0[nm], A1, overlap_matrix(tops_of(U[nm]["h"]), tops_of(A1["h"])), kout, False, ww, "backward", tol_rel=tol)
            if inplace:
                rec.hit("reactor.nonuniform.restored")
                if r.core.getAssemblyByName(nm) is not a or a.getName() != nm:
                    rec.violation("convert/nonuniform-original-not-restored", "after applyStateToOriginal the original assembly %s is not back in the core under its name" % nm, ww)
        rec.case(["reactor", "inplace" if inplace else "copy", "gamma" if gamma else "neutronics", len(assems), len(pairs), w.get("perturbation"), sorted(w.get("settings", {}))],
                 nontrivial=bool(pairs), sample=dict(w, assemblies=len(assems)) if sample else None)
    except Exception as e:
        rec.crash("convert-case", e, w)


# ============================================================================= pure functions
def do_pure(spec, rec):
    for i in range(spec["n"]):
        rng = random.Random("%s:%d" % (spec["rng"], i))
        filtermesh_case(rec, rng, i)
        resample_case(rec, rng, i)
        if i % 2 == 0:
            average1d_case(rec, rng, i)


def clustered_points(rng, n, span, close):
    pts = []
    while len(pts) < n:
        r = rng.random()
        if pts and r < .45:
            pts.append(rng.choice(pts) + rng.uniform(-1, 1) * close * rng.choice([.1, .5, .99, 1.0, 1.01, 1.5]))
        elif pts and r < .5:
            pts.append(rng.choice(pts))  # duplicate
        elif r < .75:
            pts.append(float(rng.randint(0, int(span))))
        else:
            pts.append(rng.uniform(0, span))
    return pts


def filtermesh_case(rec, rng, i):
    from armi.reactor.converters import uniformMesh as um

    n = rng.randint(1, 14)
    minimum = rng.choice([.5, 1.0, 2.0, 3.0, 5.0, rng.uniform(.01, 20)])
    pts = clustered_points(rng, n, rng.choice([20, 100, 300]), minimum)
    na = rng.choice([0, 1, 1, 2, 2, 3, 4])
    anchors = rng.sample(sorted(set(pts)), min(na, len(set(pts))))
    if rng.random() < .15:
        anchors.append(rng.uniform(0, 300))  # an anchor that is not a mesh point: harmless by the docstring
    pref = rng.choice(["bottom", "top"])
    w = {"meshList": pts, "minimumMeshSize": minimum, "anchorPoints": anchors, "preference": pref}
    g = um.UniformMeshGenerator(None, minimum)
    inlist = sorted(a for a in set(anchors) if a in pts)
    clash = any(abs(y - x) < minimum for x, y in zip(inlist, inlist[1:]))
    before = (list(pts), list(anchors))
    try:
        out = g._filterMesh(pts if rng.random() < .5 else set(pts), minimum, anchors, preference=pref)
    except ValueError as e:
        rec.hit("filterMesh.raise-iff")
        if "anchor" not in str(e):
            rec.crash("filterMesh", e, w)
        elif not clash:
            rec.violation("filterMesh/raised-without-close-anchors", "_filterMesh raised although no two anchors are closer than %r" % minimum, w)
        else:
            rec.reject("filterMesh refused: two anchors closer than the minimum")
        rec.case(["filter", "raise", pref, len(inlist)], nontrivial=True)
        return
    except Exception as e:
        rec.crash("filterMesh", e, w)
        return
    w["returned"] = list(out)
    rec.hit("filterMesh.raise-iff")
    if clash:
        rec.violation("filterMesh/silent-with-close-anchors", "two anchors are closer than %r, yet _filterMesh returned %r (one anchor lost or a thin cell kept)" % (minimum, out), w)
        return
    rec.hit("filterMesh.post")
    if (list(pts), list(anchors)) != before:
        rec.violation("filterMesh/input-modified", "_filterMesh changed its input lists", w)
    if any(y <= x for x, y in zip(out, out[1:])):
        rec.violation("filterMesh/not-strictly-increasing", "returned %r" % (out,), w)
    if any(x not in pts for x in out):
        rec.violation("filterMesh/point-not-in-input", "returned %r holds points that were not given" % (out,), w)
    if any(abs(y - x) < minimum for x, y in zip(out, out[1:])):
        rec.violation("filterMesh/cell-thinner-than-minimum", "returned %r has a gap below %r" % (out, minimum), w)
    if any(a not in out for a in inlist):
        rec.violation("filterMesh/anchor-removed", "anchors %r, returned %r" % (inlist, out), w)
    if len(pts) and not out:
        rec.violation("filterMesh/empty-result", "non-empty mesh filtered to nothing", w)
    # nothing is dropped needlessly: every dropped point is within the minimum of a kept one
    if any(all(abs(p - q) >= minimum for q in out) for p in set(pts) - set(out)):
        rec.add("observed:filterMesh dropped a point farther than the minimum from every kept point (not judged)")
    rec.case(["filter", pref, len(set(pts)), len(out), len(inlist)], nontrivial=len(out) < len(set(pts)), sample=w if i < 1 else None)


def average1d_case(rec, rng, i):
    from armi.utils.mathematics import average1DWithinTolerance

    nr, nc = rng.randint(1, 7), rng.randint(1, 8)
    base = np.cumsum([rng.uniform(5, 40) for _ in range(nc)])
    tol = rng.choice([.2, .2, .2, rng.uniform(.03, .5)])
    style = rng.choice(["tight", "tight", "outliers", "identical", "wide"])
    rows = []
    for _ in range(nr):
        if style == "identical":
            rows.append(base.copy())
        elif style == "tight":
            rows.append(base * (1 + np.array([rng.uniform(-.4, .4) * tol for _ in range(nc)])))
        elif style == "outliers":
            f = rng.choice([1.0, 1.0, 1.0, (1 + rng.uniform(1.5, 4) * tol) ** rng.choice([-1, 1])])
            rows.append(base * f * (1 + np.array([rng.uniform(-.1, .1) * tol for _ in range(nc)])))
        else:
            rows.append(base * (1 + np.array([rng.uniform(-2, 2) * tol for _ in range(nc)])))
    vals = np.array(rows)
    w = {"vals": vals.tolist(), "tolerance": tol, "style": style}
    keep = vals.copy()
    try:
        out = average1DWithinTolerance(vals, tol) if tol != .2 or rng.random() < .5 else average1DWithinTolerance(vals)
    except ValueError as e:
        mean = vals.mean(axis=0)
        if "Nothing was near the mean" in str(e) and (np.abs(vals - mean) / mean).max() > tol * (1 - 1e-9):
            rec.reject("average1DWithinTolerance refused: nothing near the mean")
        else:
            rec.crash("average1DWithinTolerance", e, w)
        return
    except Exception as e:
        rec.crash("average1DWithinTolerance", e, w)
        return
    rec.hit("average1D")
    out = np.asarray(out, float)
    w["returned"] = out.tolist()
    if not np.array_equal(vals, keep):
        rec.violation("average1D/input-modified", "average1DWithinTolerance changed its input", w)
    mean = vals.mean(axis=0)
    dev = (np.abs(vals - mean) / mean).max()
    if out.shape != mean.shape:
        rec.violation("average1D/wrong-shape", "returned shape %r for %r input" % (out.shape, vals.shape), w)
        return
    if dev < tol * (1 - 1e-9):
        if np.any(np.abs(out - mean) > 1e-12 * mean):
            rec.violation("average1D/not-the-mean-although-all-within-tolerance", "every row is within %r of the column mean %r, returned %r" % (tol, mean.tolist(), out.tolist()), w)
    else:
        rec.hit("average1D.filtered")
        ok = False
        for k in range(1, nr + 1):
            for sub in itertools.combinations(range(nr), k):
                m = vals[list(sub)].mean(axis=0)
                if np.all(np.abs(m - out) <= 1e-12 * m) and (np.abs(vals[list(sub)] - m) / m).max() <= tol * (1 + 1e-9):
                    ok = True
                    break
            if ok:
                break
        if not ok:
            rec.violation("average1D/not-the-mean-of-rows-within-tolerance", "returned %r is not the column mean of any set of rows that all lie within %r of it" % (out.tolist(), tol), w)
    if np.any(out < vals.min(axis=0) * (1 - 1e-12)) or np.any(out > vals.max(axis=0) * (1 + 1e-12)):
        rec.violation("average1D/outside-column-range", "returned %r outside [min,max] of the columns" % out.tolist(), w)
    rec.case(["avg1d", style, nr, nc, tol == .2], nontrivial=nr > 1 and style != "identical")


def resample_reference(xin, yin, xout, avg):
    """Brute force: integral / mean of the step function over each output cell (cells entirely outside the input range give 0)."""
    out = []
    for a, b in zip(xout, xout[1:]):
        ws = [max(0.0, min(b, x1) - max(a, x0)) if (b > x0 and a < x1) else 0.0 for x0, x1 in zip(xin, xin[1:])]
        idx = [k for k, wk in enumerate(ws) if wk > 0]
        if not idx:
            out.append(0)
        elif any(yin[k] is None for k in idx):
            out.append(None)
        elif avg:
            out.append(sum(as_num(yin[k]) * ws[k] for k in idx) / sum(ws[k] for k in idx))
        else:
            out.append(sum(as_num(yin[k]) * (ws[k] / (xin[k + 1] - xin[k])) for k in idx))
    return out


def resample_case(rec, rng, i):
    from armi.utils.mathematics import resampleStepwise

    nb = rng.randint(1, 9)
    xin = tops_of([rng.choice([rng.uniform(.5, 10), float(rng.randint(1, 5))]) for _ in range(nb + 1)])
    x0 = rng.choice([0.0, 0.0, rng.uniform(-5, 5)])
    xin = [x0] + [x0 + t for t in xin[:-1]]
    vk = rng.choice(["float", "float", "int", "none_some", "none_all", "array", "mixed_array", "signed"])
    G = rng.randint(1, 4)

    def val():
        if vk == "float":
            return rng.uniform(0, 10)
        if vk == "signed":
            return rng.uniform(-10, 10)
        if vk == "int":
            return rng.randint(0, 9)
        if vk == "none_all":
            return None
        if vk == "none_some":
            return None if rng.random() < .3 else rng.uniform(0, 10)
        if vk == "array":
            return np.array([rng.uniform(0, 10) for _ in range(G)])
        return np.array([rng.uniform(0, 10) for _ in range(G)]) if rng.random() < .6 else rng.uniform(0, 10)

    yin = [val() for _ in range(nb)]
    lo, hi = xin[0], xin[-1]
    inner = xin[1:-1]
    ok = rng.choice(["identical", "coarser", "finer", "shifted", "near", "random", "inside-one-bin", "beyond", "straddle"])
    if ok == "identical":
        xout = list(xin)
    elif ok == "coarser":
        xout = [lo] + [x for x in inner if rng.random() < .5] + [hi]
    elif ok == "finer":
        xout = sorted(set(xin + [rng.uniform(lo, hi) for _ in range(rng.randint(1, 6))]))
    elif ok == "shifted":
        d = rng.uniform(-.4, .4) * float(min(np.diff(xin)))
        xout = [lo] + [x + d for x in inner] + [hi]
    elif ok == "near":
        xout = [lo] + [x + rng.choice([-1, 0, 1]) * 10 ** rng.uniform(-9, -3) for x in inner] + [hi]
    elif ok == "random":
        xout = sorted(set([lo, hi] + [rng.uniform(lo, hi) for _ in range(rng.randint(0, 8))]))
    elif ok == "inside-one-bin":
        k = rng.randrange(nb)
        a, b = sorted(rng.uniform(xin[k], xin[k + 1]) for _ in range(2))
        xout = sorted(set([lo, a, b, hi] if rng.random() < .5 else [a, b]))
    elif ok == "beyond":
        xout = list(xin) + [hi + 1.0, hi + 2.5] if rng.random() < .5 else [lo - 3.0, lo - 1.0] + list(xin)
    else:
        xout = sorted(set([lo - rng.uniform(.5, 3)] + [rng.uniform(lo, hi) for _ in range(rng.randint(0, 3))] + [hi + rng.uniform(.5, 3)]))
    xout = sorted(xout)
    if len(xout) < 2 or any(y <= x for x, y in zip(xout, xout[1:])):
        return
    for avg in (True, False):
        mode = "avg" if avg else "sum"
        w = {"xin": xin, "yin": [copyval(v) for v in yin], "xout": xout, "avg": avg, "values": vk, "xout_kind": ok}
        yarg = [copyval(v) for v in yin]
        try:
            got = resampleStepwise(list(xin), yarg, list(xout), avg=avg)
        except Exception as e:
            partial_none = any(yin[k] is None and any((b > xin[k] and a < xin[k + 1]) and (a > xin[k] or b < xin[k + 1]) for a, b in zip(xout, xout[1:])) for k in range(nb))
            left_out = any(b <= lo for a, b in zip(xout, xout[1:]))
            if any(not (a >= lo and b <= hi) and (b > lo and a < hi) for a, b in zip(xout, xout[1:])):
                rec.skip("output cell straddles the end of the input range: semantics not stated (call raised %s)" % type(e).__name__)
            elif left_out and nb == 1:
                rec.hit("resample." + mode)
                rec.violation("resampleStepwise/%s/cell-left-of-input-range-with-single-input-bin" % mode, "resampleStepwise raised %s: %s for an output cell entirely below a one-bin input range (such cells give 0 for longer inputs)" % (type(e).__name__, str(e)[:80]), w)
            elif isinstance(e, TypeError) and not avg and partial_none:
                rec.hit("resample.sum")
                rec.violation("resampleStepwise/sum/unset-value-in-partially-covered-bin-raises", "resampleStepwise(avg=False) raised %s: %s where an unset (None) input bin is only partly covered by an output cell (avg=True returns None there)" % (type(e).__name__, str(e)[:100]), w)
            else:
                rec.crash("resampleStepwise/" + mode, e, w)
            continue
        rec.hit("resample." + mode)
        w["returned"] = got
        straddle = [not (a >= lo and b <= hi) and (b > lo and a < hi) for a, b in zip(xout, xout[1:])]
        ref = resample_reference(xin, yin, xout, avg)
        if len(got) != len(xout) - 1:
            rec.violation("resampleStepwise/%s/wrong-length" % mode, "%d output values for %d output cells" % (len(got), len(xout) - 1), w)
            continue
        mutated = any(not same(a, b) for a, b in zip(yarg, yin))
        bad = None
        for c, (g, e) in enumerate(zip(got, ref)):
            if straddle[c]:
                rec.skip("output cell straddles the end of the input range: semantics not stated")
                continue
            if e is None or g is None:
                if not (e is None and g is None):
                    bad = c
                    break
                continue
            sc = sum(np.abs(as_num(v)) for v in yin if v is not None)
            if not close(g, e, TOLERANCES["pure_rel"] * sc + 1e-300) and not (np.ndim(e) > 0 and np.ndim(g) == 0 and float(g) == 0 and not np.any(e)):
                bad = c
                break
        if bad is not None:
            a, b = xout[bad], xout[bad + 1]
            inside = any(a > x0 and b < x1 for x0, x1 in zip(xin, xin[1:]))
            shared_array = (not avg) and any(isinstance(yin[k], np.ndarray) and (a > xin[k] and a < xin[k + 1]) for k in range(nb))
            if b <= lo and nb == 1:
                key = "resampleStepwise/%s/cell-left-of-input-range-with-single-input-bin" % mode
            elif not avg and inside:
                key = "resampleStepwise/sum/cell-strictly-inside-one-input-bin"
            elif shared_array and mutated:
                key = "resampleStepwise/sum/array-values-scaled-in-place"
            else:
                key = "resampleStepwise/%s/law" % mode
            rec.violation(key, "output cell %d [%r,%r]: returned %r, %s of the step function is %r" % (bad, a, b, got[bad], "mean" if avg else "integral share (sum)", ref[bad]), dict(w, cell=bad))
        elif mutated:
            rec.violation("resampleStepwise/sum/array-values-scaled-in-place" if not avg else "resampleStepwise/avg/input-values-modified", "resampleStepwise changed the caller's yin values (array elements scaled in place)", w)
        rec.case(["resample", mode, vk, ok, nb, len(xout)], nontrivial=ok != "identical", sample=w if i < 1 and avg else None)
