"""C10 - XS libraries merge losslessly; macroscopic data are density-weighted sums.

Workload: a seeded generator builds real IsotxsLibrary / XSNuclide / XSCollection objects (ISOTXS-, GAMISO- and
PMATRX-kind libraries of one "family": neutron groups 1-8, gamma groups 1-5, nuclide labels with xs-ID suffixes,
optional reactions, sparse banded scatter matrices, optional file-wide chi, optional dose factors) and, for most
cases, writes them with armi's CCCC writers and reads them back so the judged objects are what the readers produce.
The repo's fixture files (ISOAA, ISOAB, AA/AB.gamiso, AA/AB.pmatrx) are merged as well.

Oracles (all written here, none calls the code under test for its expectation):
* merge: a deep observation obs(lib) (nested tuples of bytes/strings) of every source taken BEFORE merging is the
  model; merged label set == union, every nuclide part (neutron / gamma / production data + the three metadata
  dicts) byte-identical to the source part, library properties and file metadata equal the common source value,
  canonical observation identical for every merge order.
* refusal: obs(target) before == after for every planted conflict that armi refuses; a named conflict that is
  accepted is a violation.
* macroscopic: 6-line numpy reference sum_i N_i * sigma_i (* multiplier_i), linearity, additivity, empty composition,
  derived sums from their definitions; the creator is driven with libType="micros" AND libType="gammaXS" (what
  macroXSGenerationInterface passes), with nucNames=, with compositions naming nuclides the library lacks (zero density:
  no contribution; positive density: documented ValueError), and the group constants with multLib= (multiplier from a
  second library).
* COMPXS (region) libraries: generated CompxsLibrary objects (written and read back with armi's COMPXS writer/reader) and
  the repo's COMPXS.ascii are merged in every order; model = concatenation of the sources' regions in merge order
  (labels 0..n-1, every region byte-identical to its source, per-region metadata vectors concatenated, counts summed,
  common values kept); another group structure must be refused and leave the target unchanged.
* a refused merge that changed the target is keyed by WHAT changed (for a modified nuclide: the kind of data it clashes on and
  the parts of it that differ), so that only the ways in which armi is non-atomic today are known findings.
"""
import copy
import itertools
import os
import random

import numpy as np

PROP = "C10"
LEVEL = "exploration"
RULE = (
    "merge: a case = one (library set, merge order); sets of 2-5 generated libraries of one family (ISOTXS/GAMISO/PMATRX kinds, "
    "1-8 neutron and 1-5 gamma groups, 1-6 nuclides per library with xs-ID suffixes, optional reactions, banded sparse scatter "
    "matrices, optional file-wide chi / dose factors, some pre-merged composites), ALL orders (<=120) of every set; plus subsets of "
    "the six repo fixture libraries. conflict: a case = one (target, offending library, conflict kind, clash position). macro: a case "
    "= one (library, suffix, composition pair) - compositions include zero densities, nuclides missing from the library and the empty "
    "map; neutron and gamma tables, nucNames= subsets, a second library as multLib=. compxs: a case = one (set of 2-4 region libraries of 1-4 "
    "regions, merge order, into empty or into the first) or one (target, offender with another group structure / file metadata). "
    "Non-trivial = at least two libraries with data / a composition with >=1 nuclide present in the library."
)
TOLERANCES = {"stored_data": "exact (dtype, shape and bytes of every array; type and value of every scalar)",
              "macro_rel": 1e-12, "macro_rel_note": "relative to the sum of magnitudes of the summed terms; x4 for sums recomputed from several "
              "armi calls, x8 for removal/diffusion, x16 for linearity of the creator's outputs", "chi_rel": 1e-9}
EXHAUSTIVE = {"quick": False, "thorough": False}
EXHAUSTIVE_PART = ("all merge orders (m! <= 120) of every generated library set; all 2- and 3-subsets of the 6 fixture libraries in all orders; "
                   "all orders (m! <= 24) of every COMPXS library set")
TIMEOUT = {"quick": 600, "thorough": 3600}
ASSUMPTIONS = [
    "C10: compositions are presented through a duck-typed block (getNuclides/getMicroSuffix/getNuclideNumberDensities/getNumberDensities), "
    "as armi's own test_xsCollections.MockBlock does; real Block number densities are C02's subject",
    "C10: a write-once library property that is unset and one that holds None are observed as the same state; likewise a metadata key "
    "that is absent and one that holds None (metadata[key] returns None for both)",
    "C10: library-level neutronVelocity is documented as 'use the first one' - judged only as 'equals the velocity of some source'; "
    "XSCollection.source / libraryLabel / fileNames order / nuclide label order are order records, not content",
    "C10: a COMPXS merge appends regions, so region numbering follows the merge order by design; judged per order against the concatenation "
    "of the sources, and across orders as a multiset of regions. CompxsRegion.regionNumber of a merged region is not judged (the library key is)",
]
_KINDS_FLOOR = ("same-label-same-kind", "same-label-same-kind/premerged", "neutron-bounds", "gamma-bounds", "dose-factors", "file-metadata")
FLOORS = {
    "quick": dict({"merge.order": 400, "merge.nuclide-identity": 2000, "merge.order-independence": 300, "merge.library-level": 400,
                   "conflict.refused": 60, "conflict.unchanged-check": 60, "macro.groupconstant": 500, "macro.linearity": 300,
                   "macro.additivity": 300, "macro.creator": 60, "macro.derived": 60, "macro.totalscatter": 100, "macro.energy": 60,
                   "macro.empty": 20, "fixture.order": 100, "fixture.conflict": 4, "fixture.macro": 12,
                   "merge.chi-flag-after-file-wide-chi-removal": 150, "macro.creator-gamma": 150, "macro.derived-gamma": 150, "macro.creator-missing": 150, "macro.creator-nucnames": 80,
                   "macro.multlib": 250, "macro.energy-missing": 300, "conflict.neutron-bounds.target-without-velocity": 5, "merge.questions-between-merges": 1500, "merge.views": 1200,
                   "compxs.order": 30, "compxs.region-identity": 250, "compxs.library-level": 30, "compxs.order-independence": 25,
                   "compxs.conflict.refused/group-structure": 45, "compxs.unchanged-check": 60},
                  **{"conflict.refused/%s" % k: 10 for k in _KINDS_FLOOR}),
    "thorough": dict({"merge.order": 8000, "merge.nuclide-identity": 40000, "merge.order-independence": 6000, "merge.library-level": 8000,
                      "conflict.refused": 1200, "conflict.unchanged-check": 1200, "macro.groupconstant": 10000, "macro.linearity": 6000,
                      "macro.additivity": 6000, "macro.creator": 1200, "macro.derived": 1200, "macro.totalscatter": 2000, "macro.energy": 1200,
                      "macro.empty": 400, "fixture.order": 170, "fixture.conflict": 4, "fixture.macro": 100,
                      "merge.chi-flag-after-file-wide-chi-removal": 3000, "macro.creator-gamma": 3000, "macro.derived-gamma": 3000, "macro.creator-missing": 3000, "macro.creator-nucnames": 1500,
                      "macro.multlib": 5000, "macro.energy-missing": 6000, "conflict.neutron-bounds.target-without-velocity": 60, "merge.questions-between-merges": 30000, "merge.views": 24000,
                      "compxs.order": 1200, "compxs.region-identity": 10000, "compxs.library-level": 1200, "compxs.order-independence": 1000,
                      "compxs.conflict.refused/group-structure": 900, "compxs.unchanged-check": 1200},
                     **{"conflict.refused/%s" % k: 200 for k in _KINDS_FLOOR}),
}

# (armi nuclide name, 4-character library label) - the generator's own table, confirmed against armi at shard start
POOL = [("U235", "U235"), ("U238", "U238"), ("PU239", "PU39"), ("PU240", "PU40"), ("AM241", "AM41"), ("FE54", "FE54"),
        ("FE56", "FE56"), ("NA23", "NA23"), ("ZR90", "ZR90"), ("O16", "O16"), ("B10", "B10"), ("C12", "C12"), ("H1", "H01"),
        ("CR52", "CR52"), ("NI58", "NI58"), ("MN55", "MN55"), ("XE135", "XE35"), ("LFP40", "FP40"), ("DUMP1", "DMP1"), ("MO98", "MO98")]
LABEL_OF = dict(POOL)
HEAVY = {"U235", "U238", "PU239", "PU240", "AM241"}
XSIDS = ["AA", "AB", "AC", "BA", "BB", "CA", "ZZ", "AD", "BC", "CB"]
PROPS = ("neutronEnergyUpperBounds", "neutronVelocity", "gammaEnergyUpperBounds", "neutronDoseConversionFactors", "gammaDoseConversionFactors")
KINDS = ("isotxs", "gamiso", "pmatrx")
META_OF = {"isotxs": "isotxsMetadata", "gamiso": "gamisoMetadata", "pmatrx": "pmatrxMetadata"}
PM_ATTRS = ("neutronHeating", "neutronDamage", "gammaHeating", "isotropicProduction", "linearAnisotropicProduction", "nOrderProductionMatrix")
# nuclide parts: which observation keys belong to which kind of source file
PARTS = {"isotxs": ("isotxsMetadata", "micros"), "gamiso": ("gamisoMetadata", "gammaXS"), "pmatrx": ("pmatrxMetadata",) + PM_ATTRS}
FIXDIR = os.path.join(os.environ.get("VERIF_REPO", "/repo"), "armi", "nuclearDataIO", "tests", "fixtures")
FIXTURES = [("isotxs", "ISOAA"), ("isotxs", "ISOAB"), ("gamiso", "AA.gamiso"), ("gamiso", "AB.gamiso"), ("pmatrx", "AA.pmatrx"), ("pmatrx", "AB.pmatrx")]


def plan(tier, seed):
    q = tier == "quick"
    shards = []
    for i in range(6):
        shards.append({"name": "merge-%d" % i, "kind": "merge", "n": 18 if q else 420})
    for i in range(3):
        shards.append({"name": "conflict-%d" % i, "kind": "conflict", "n": 60 if q else 1100})
    for i in range(4):
        shards.append({"name": "macro-%d" % i, "kind": "macro", "n": 30 if q else 500})
    shards.append({"name": "fixture-merge", "kind": "fixmerge", "big": 1 if q else 6})
    shards.append({"name": "fixture-conflict", "kind": "fixconflict"})
    shards.append({"name": "fixture-macro", "kind": "fixmacro", "n": 12 if q else 150})
    shards.append({"name": "compxs-merge", "kind": "compxs", "n": 30 if q else 600})
    return shards


def run_shard(spec, rec):
    _confirm_pool()
    {"merge": do_merge, "conflict": do_conflict, "macro": do_macro, "fixmerge": do_fixmerge,
     "fixconflict": do_fixconflict, "fixmacro": do_fixmacro, "compxs": do_compxs}[spec["kind"]](spec, rec)


def _confirm_pool():
    from armi.nucDirectory import nuclideBases as nb

    for name, label in POOL:
        b = nb.byName[name]
        assert b.label == label and nb.byLabel[label] is b, (name, label, b.label)


# ============================================================================= generator
def f32(x):
    return float(np.float32(x))


def rvals(rng, n, lo=0.01, hi=10.0, pzero=0.0):
    return np.array([0.0 if rng.random() < pzero else f32(rng.uniform(lo, hi)) for _ in range(n)], dtype=float)


def descending(rng, n, lo, hi):
    vals = set()
    while len(vals) < n:
        vals.add(f32(rng.uniform(lo, hi)))
    return sorted(vals, reverse=True)


def gen_family(rng, ng=None, ngam=None):
    """File-level facts shared by every library of a legal merge set."""
    ng = ng or rng.choice([1, 2, 2, 3, 3, 4, 5, 6, 7, 8])
    ngam = ngam or rng.randint(1, 5)
    nlay = rng.sample([100, 200, 300, 101, 0, 102], rng.randint(1, 5))
    if rng.random() < 0.8 and 100 not in nlay:
        nlay[0] = 100
    glay = rng.sample([100, 101, 102, 103], rng.randint(1, 3))
    return {
        "ng": ng, "ngam": ngam,
        "nBounds": descending(rng, ng, 1.0, 1.4e7), "gBounds": descending(rng, ngam, 1e4, 2e7),
        "vel": [f32(v) for v in descending(rng, ng, 1e5, 5e9)], "gvel": [0.0] * ngam,
        "emin": f32(rng.choice([0.0, 1e-5, 0.414])), "gemin": f32(rng.choice([1e3, 5e3])),
        "fileId": rng.choice([0, 0, 1]), "maxUp": rng.choice([0, 0, 1, 2]), "maxOrd": rng.randint(0, 3),
        "nlay": nlay, "glay": glay, "ltot": rng.choice([1, 1, 2, 4]), "ltrn": rng.choice([1, 1, 2, 3]),
        "gltot": rng.choice([1, 2]), "gltrn": rng.choice([1, 2]),
        "pmOrd": rng.choice([0, 1, 1, 2]), "dose": rng.random() < 0.4,
        "ndose": [f32(rng.uniform(0, 1)) for _ in range(ng)], "gdose": [f32(rng.uniform(0, 1)) for _ in range(ngam)],
    }


def gen_libspec(rng, fam, kind, xsid, names, tag, fileChi=None, sameVelocity=True, complete=False):
    """A JSON-able description of one library; all numbers come from random.Random(vseed)."""
    if fileChi is None:
        fileChi = kind == "isotxs" and rng.random() < 0.25
    return {"kind": kind, "xsid": xsid, "names": list(names), "fileChi": bool(fileChi), "tag": tag,
            "vseed": "%s/%s" % (tag, rng.getrandbits(40)), "sameVelocity": sameVelocity, "complete": complete,
            "roundtrip": rng.random() < 0.75}


def _scatter(vr, ng, maxUp):
    """Random banded matrix with its jband/jj description (1-based jj = position of in-group term)."""
    dense = np.zeros((ng, ng))
    jband, jj = {}, {}
    for g in range(ng):
        j = vr.randint(1, max(1, min(ng - g, 1 + maxUp)))
        jup = g + j
        band = vr.choice([0, jup, jup, vr.randint(0, jup), vr.randint(min(j, jup), jup)])
        jdown = jup - band
        dense[g, jdown:jup] = rvals(vr, band, 0.001, 3.0, pzero=0.3)
        jband[g], jj[g] = band, j
    return dense, jband, jj


def _fill_isotxs_like(lib, spec, fam, gamma):
    """Populate lib with ISOTXS-format data (neutron or gamma flavour) from the spec."""
    from scipy import sparse

    from armi.nuclearDataIO import xsCollections, xsNuclides

    vr = random.Random(spec["vseed"] + ("g" if gamma else "n"))
    ng = fam["ngam"] if gamma else fam["ng"]
    lay = fam["glay"] if gamma else fam["nlay"]
    md = lib.gamisoMetadata if gamma else lib.isotxsMetadata
    md["label"] = "ISOTXS"
    md["fileId"] = fam["fileId"]
    md["numGroups"] = ng
    md["maxUpScatterGroups"] = fam["maxUp"]
    md["maxDownScatterGroups"] = ng - 1
    md["maxScatteringOrder"] = fam["maxOrd"]
    md["fileWideChiFlag"] = 1 if (spec["fileChi"] and not gamma) else 0
    md["maxScatteringBlocks"] = len(lay)
    md["subblockingControl"] = 1
    md["libraryLabel"] = "lib %s" % spec["tag"]
    fileChi = None
    if md["fileWideChiFlag"] == 1:
        fileChi = md["chi"] if md["chi"] is not None else rvals(random.Random(spec["tag"] + "chi"), ng, 0.0, 1.0)
        md["chi"] = fileChi
    if gamma:
        md["gammaVelocity..NOT"] = np.array(fam["gvel"], dtype=float)
        md["minimumNeutronEnergy"] = fam["gemin"]
        lib.gammaEnergyUpperBounds = np.array(fam["gBounds"], dtype=float)
    else:
        md["minimumNeutronEnergy"] = fam["emin"]
        lib.neutronVelocity = np.array(fam["vel"] if spec["sameVelocity"] else [f32(v * 1.5) for v in fam["vel"]], dtype=float)
        lib.neutronEnergyUpperBounds = np.array(fam["nBounds"], dtype=float)
    zero = xsCollections.XSCollection.getDefaultXs(ng)
    for name in spec["names"]:
        key = LABEL_OF[name] + spec["xsid"]
        nuc = lib.get(key, None)
        new = nuc is None
        if new:
            nuc = xsNuclides.XSNuclide(lib, key)
        m = nuc.gamisoMetadata if gamma else nuc.isotxsMetadata
        xs = nuc.gammaXS if gamma else nuc.micros
        fis = (not gamma) and ((name in HEAVY and vr.random() < 0.85) or vr.random() < 0.05)
        m["nuclideId"] = name
        m["libName"] = vr.choice(["", "ENDF7", "V71"])
        m["isoIdent"] = vr.choice(["", name[:6]])
        m["amass"] = 0.0 if gamma else f32(vr.uniform(1, 250))
        m["efiss"] = f32(vr.uniform(2.9e-11, 3.3e-11)) if fis else 0.0
        m["ecapt"] = 0.0 if gamma else f32(vr.uniform(5e-13, 1.5e-12))
        m["temp"] = f32(vr.choice([300.0, 873.0, 1200.0]))
        m["sigPot"] = f32(vr.uniform(0, 15))
        m["adens"] = f32(vr.uniform(0, 0.05))
        m["classif"] = vr.randint(0, 3)
        m["fisFlag"] = 1 if fis else 0
        if fis:
            m["chiFlag"] = 0 if (fileChi is not None and vr.random() < 0.7) else 1
        else:
            m["chiFlag"] = 1 if (not gamma and vr.random() < 0.05) else 0
        present = {}
        for r in ("nalph", "np", "n2n", "nd", "nt"):
            present[r] = 0 if gamma else int(vr.random() < (0.9 if spec["complete"] else 0.45))
        for r in ("nalph", "np", "n2n", "nd", "nt"):
            m[r] = present[r]
        m["ltot"] = fam["gltot"] if gamma else fam["ltot"]
        m["ltrn"] = fam["gltrn"] if gamma else fam["ltrn"]
        m["strpd"] = 0 if (gamma or spec["complete"]) else vr.choice([0, 0, 0, 1, 2])
        m["scatFlag"] = np.array(lay)
        ords = [int(vr.random() < (0.9 if spec["complete"] else 0.6)) for _ in lay]
        m["ords"] = np.array(ords)
        xs.transport = np.array([rvals(vr, m["ltrn"], 0.5, 20.0) for _ in range(ng)])
        xs.total = np.array([rvals(vr, m["ltot"], 0.5, 25.0) for _ in range(ng)])
        xs.nGamma = rvals(vr, ng, 0.0, 5.0, pzero=0.1)
        if fis:
            xs.fission = rvals(vr, ng, 0.01, 4.0, pzero=0.1)
            xs.neutronsPerFission = rvals(vr, ng, 2.0, 3.5)
        else:
            xs.fission = zero
            xs.neutronsPerFission = zero
        if m["chiFlag"] == 1:
            xs.chi = rvals(vr, ng, 0.0, 1.0, pzero=0.2)
        elif fis:
            xs.chi = fileChi
        else:
            xs.chi = zero
        for r in ("nalph", "np", "n2n", "nd", "nt"):
            xs.__dict__[r] = rvals(vr, ng, 0.0, 1.0, pzero=0.2) if present[r] else zero
        xs.strpd = np.array([rvals(vr, m["strpd"], 0.1, 5.0) for _ in range(ng)]) if m["strpd"] > 0 else zero
        jband, jj = {}, {}
        for n, flag in enumerate(lay):
            if ords[n]:
                dense, jb, jjn = _scatter(vr, ng, fam["maxUp"])
                mat = sparse.csr_matrix(dense)
                attr = {100: "elasticScatter", 200: "inelasticScatter", 300: "n2nScatter", 0: "totalScatter", 101: "elasticScatter1stOrder"}.get(flag)
                if attr:
                    setattr(xs, attr, mat)
                else:
                    xs.higherOrderScatter[n] = mat
            else:
                jb = {g: 0 for g in range(ng)}
                jjn = {g: 1 for g in range(ng)}
            for g in range(ng):
                jband[g, n] = jb[g]
                jj[g, n] = jjn[g]
        m["jband"] = jband
        m["jj"] = jj
        if new:
            lib[key] = nuc
        nuc.updateBaseNuclide()


def _fill_pmatrx(lib, spec, fam):
    from armi.nuclearDataIO import xsNuclides

    vr = random.Random(spec["vseed"] + "p")
    ng, ngam = fam["ng"], fam["ngam"]
    md = lib.pmatrxMetadata
    md["numberCollapsingSpatialRegions"] = 0
    md["numGammaGroups"] = ngam
    md["numNeutronGroups"] = ng
    md["hasInPlateData"] = False
    md["hasDoseConversionFactor"] = bool(fam["dose"])
    md["maxScatteringOrder"] = fam["pmOrd"]
    for k in ("maxNumberOfCompositions", "maxMaterials", "maxNumberOfRegions", "maxNumberOfCollapsingRegions", "_dummy1", "_dummy2"):
        md[k] = 0
    md["minimumNeutronEnergy"] = fam["emin"]
    md["minimumGammaEnergy"] = fam["gemin"]
    lib.neutronEnergyUpperBounds = np.array(fam["nBounds"], dtype=float)
    lib.gammaEnergyUpperBounds = np.array(fam["gBounds"], dtype=float)
    if fam["dose"]:
        lib.neutronDoseConversionFactors = np.array(fam["ndose"], dtype=float)
        lib.gammaDoseConversionFactors = np.array(fam["gdose"], dtype=float)
    for name in spec["names"]:
        key = LABEL_OF[name] + spec["xsid"]
        nuc = lib.get(key, None)
        new = nuc is None
        if new:
            nuc = xsNuclides.XSNuclide(lib, key)
        m = nuc.pmatrxMetadata
        heat = spec["complete"] or vr.random() < 0.8
        gheat = spec["complete"] or vr.random() < 0.8
        order = vr.randint(0, min(2, fam["pmOrd"]))  # the PMATRX reader cannot take nuclide orders above 2 (nOrderProductionMatrix KeyError)
        if not (heat or gheat or order):
            heat = True  # a PMATRX nuclide without any record carries no data that could clash
        m["hasNeutronHeatingAndDamage"] = bool(heat)
        m["maxScatteringOrder"] = order
        m["hasGammaHeating"] = bool(gheat)
        m["numberNeutronXS"] = 0
        m["collapsingRegionNumber"] = 0
        m["activationXS"], m["activationMT"], m["activationMTU"] = [], [], []
        if heat:
            nuc.neutronHeating = rvals(vr, ng, 1e3, 1e6)
            nuc.neutronDamage = rvals(vr, ng, 0.0, 1e3, pzero=0.1)
        if gheat:
            nuc.gammaHeating = rvals(vr, ngam, 1e3, 1e6)
        if order >= 1:
            nuc.isotropicProduction = np.array([rvals(vr, ng, 0.0, 2.0, pzero=0.3) for _ in range(ngam)])
        if order >= 2:
            nuc.linearAnisotropicProduction = np.array([rvals(vr, ng, 0.0, 1.0, pzero=0.3) for _ in range(ngam)])
        if new:
            lib[key] = nuc
        nuc.updateBaseNuclide()


_counter = [0]
_paths = []


class Source:
    """One library of a merge set: how to obtain fresh, independent copies and what it held when made."""

    def __init__(self, spec, fam=None, path=None, kind=None, rereadEvery=1):
        self.spec, self.fam, self.path, self.kind = spec, fam, path, kind
        self.master = None
        self.obs = None
        self.rereadEvery, self.n = rereadEvery, 0

    def fresh(self):
        """A new, independent library: read again from the file (what the reader produces) or a deep copy of such a read."""
        self.n += 1
        if self.path is not None and (self.master is None or self.n % self.rereadEvery == 0):
            return READERS[self.kind](self.path)
        return copy.deepcopy(self.master)


def _readers():
    from armi.nuclearDataIO.cccc import gamiso, isotxs, pmatrx

    return ({"isotxs": isotxs.readBinary, "gamiso": gamiso.readBinary, "pmatrx": pmatrx.readBinary},
            {"isotxs": isotxs.writeBinary, "gamiso": gamiso.writeBinary, "pmatrx": pmatrx.writeBinary})


READERS, WRITERS = {}, {}


def _io():
    if not READERS:
        r, w = _readers()
        READERS.update(r)
        WRITERS.update(w)


def build_library(spec, fam):
    """Build the real armi objects described by spec (directly, no file)."""
    from armi.nuclearDataIO import xsLibraries

    lib = xsLibraries.IsotxsLibrary()
    fill = {"isotxs": lambda s: _fill_isotxs_like(lib, s, fam, False), "gamiso": lambda s: _fill_isotxs_like(lib, s, fam, True),
            "pmatrx": lambda s: _fill_pmatrx(lib, s, fam)}[spec["kind"]]
    sf = spec.get("single_file")  # conflict layout: one file holding new labels, one clashing label, more new labels
    if not sf:
        fill(spec)
        return lib
    if sf["before"]:
        fill(dict(spec, names=sf["before"]))
    fill(dict(sf["clash"], fileChi=spec["fileChi"], tag=spec["tag"], sameVelocity=spec["sameVelocity"]))
    if sf["after"]:
        fill(dict(spec, names=sf["after"], vseed=spec["vseed"] + "b"))
    return lib


def make_source(spec, fam):
    """Source for a generated spec: round-tripped through the CCCC writer+reader (most) or direct objects."""
    _io()
    if "composite" in spec:
        from armi.nuclearDataIO import xsLibraries

        src = Source(spec, fam)
        lib = xsLibraries.IsotxsLibrary()
        for sub in spec["composite"]:
            lib.merge(make_source(sub, fam).fresh())
        src.master = lib
    else:
        built = build_library(spec, fam)
        if spec["roundtrip"]:
            _counter[0] += 1
            path = os.path.abspath("%s-%s-%d" % (spec["kind"], spec["xsid"], _counter[0]))
            WRITERS[spec["kind"]](built, path)
            _paths.append(path)
            src = Source(spec, fam, path=path, kind=spec["kind"])
            src.master = src.fresh()
        else:
            src = Source(spec, fam)
            src.master = built
    src.obs = obs(src.master)
    return src


def spec_kinds(spec):
    if "composite" in spec:
        out = set()
        for s in spec["composite"]:
            out |= spec_kinds(s)
        return out
    return {spec["kind"]}


def spec_keys(spec):
    """Set of (kind, label) pairs the library holds."""
    if "composite" in spec:
        out = set()
        for s in spec["composite"]:
            out |= spec_keys(s)
        return out
    keys = {(spec["kind"], LABEL_OF[n] + spec["xsid"]) for n in spec["names"]}
    if spec.get("single_file"):
        keys |= spec_keys(spec["single_file"]["clash"])
    return keys


def spec_sig(spec):
    if "composite" in spec:
        return ["composite"] + [spec_sig(s) for s in spec["composite"]]
    sig = [spec["kind"], spec["xsid"], sorted(spec["names"]), int(spec["fileChi"]), int(spec["roundtrip"]), int(spec["sameVelocity"])]
    if spec.get("single_file"):
        sf = spec["single_file"]
        sig.append(["clash-at", len(sf["before"]), len(sf["after"]), spec_sig(sf["clash"])])
    return sig


def gen_legal_set(rng, tag, m=None, complete=False, allowComposite=True):
    """m libraries of one family no two of which hold the same kind of data for the same label."""
    fam = gen_family(rng)
    m = m or rng.choice([2, 2, 3, 3, 3, 4, 4, 5])
    names = [n for n, _ in rng.sample(POOL, rng.randint(2, 6))]
    ids = rng.sample(XSIDS, rng.randint(1, 3))
    spare = [x for x in XSIDS if x not in ids]
    used = set()
    specs = []
    sameVel = rng.random() < 0.7
    # an MC**2-2 style family: every ISOTXS file of it carries a file-wide chi (and most fissile nuclides lean on it)
    mc22 = rng.random() < 0.25
    for i in range(m):
        kind = rng.choice(KINDS)
        if mc22 and i < 2:
            kind = "isotxs"
        xsid = rng.choice(ids)
        sub = rng.sample(names, rng.randint(1, len(names)))
        sub = [n for n in sub if (kind, LABEL_OF[n] + xsid) not in used]
        if not sub:
            xsid = spare.pop(0)
            sub = rng.sample(names, rng.randint(1, len(names)))
        used |= {(kind, LABEL_OF[n] + xsid) for n in sub}
        specs.append(gen_libspec(rng, fam, kind, xsid, sub, "%s.%d" % (tag, i), fileChi=(True if (mc22 and kind == "isotxs") else None),
                                 sameVelocity=sameVel or i == 0, complete=complete))
    if allowComposite and len(specs) >= 3 and rng.random() < 0.2:
        a = specs.pop(rng.randrange(len(specs)))
        b = specs.pop(rng.randrange(len(specs)))
        specs.insert(rng.randrange(len(specs) + 1), {"composite": [a, b], "tag": a["tag"] + "+" + b["tag"]})
    return fam, specs


# ============================================================================= observation
def norm(v):
    """Deep, exact, hashable normal form of any value stored in a library."""
    from scipy import sparse

    if v is None:
        return None
    if isinstance(v, np.generic):
        v = v.item()
    if isinstance(v, np.ndarray):
        if v.dtype == object:
            return ("objarr", tuple(norm(x) for x in v.tolist()))
        return ("nd", v.dtype.str, tuple(v.shape), np.ascontiguousarray(v).tobytes())
    if sparse.issparse(v):
        a = np.asarray(v.toarray())
        return ("sparse", a.dtype.str, tuple(a.shape), np.ascontiguousarray(a).tobytes())
    if isinstance(v, dict):
        return ("dict", tuple(sorted((repr(k), norm(x)) for k, x in v.items())))
    if isinstance(v, (list, tuple)):
        return ("list", tuple(norm(x) for x in v))
    if isinstance(v, bool):
        return ("b", v)
    if isinstance(v, int):
        return ("i", v)
    if isinstance(v, float):
        return ("f", v.hex())
    if isinstance(v, str):
        return ("s", str(v))
    return ("repr", repr(v))


def obs_collection(c):
    return {k: norm(v) for k, v in c.__dict__.items() if k != "source"}


def obs_nuclide(nuc, lib):
    o = {}
    for mk in ("isotxsMetadata", "gamisoMetadata", "pmatrxMetadata"):
        o[mk] = {str(k): norm(v) for k, v in getattr(nuc, mk).items() if v is not None}
    o["micros"] = obs_collection(nuc.micros)
    o["gammaXS"] = obs_collection(nuc.gammaXS)
    for a in PM_ATTRS:
        o[a] = norm(getattr(nuc, a))
    o["ident"] = (str(nuc.containerKey), str(nuc.nucLabel), str(nuc.xsId), getattr(nuc._base, "name", None), norm(nuc.source))
    o["inContainer"] = nuc.container is lib
    extra = set(nuc.__dict__) - {"isotxsMetadata", "gamisoMetadata", "pmatrxMetadata", "micros", "gammaXS", "_base", "container",
                                 "containerKey", "nucLabel", "xsId", "source", "-unlocked"} - set(PM_ATTRS)
    o["extraAttrs"] = tuple(sorted(extra))
    return o


def obs(lib):
    """Everything reachable from a library that a reader produced or a merge may touch."""
    o = {"labels": tuple(str(x) for x in lib._orderedNuclideLabels),
         "dictLabels": tuple(sorted(str(x) for x in lib._nuclides)),
         "props": {p: norm(lib.__dict__.get("_" + p, None)) for p in PROPS},
         "meta": {}, "nuclides": {}}
    for kind, mk in META_OF.items():
        md = getattr(lib, mk)
        o["meta"][kind] = {"data": {str(k): norm(v) for k, v in md.items() if v is not None}, "fileNames": tuple(str(x) for x in md.fileNames),
                           "cls": type(md).__name__}
    for key in lib._nuclides:
        o["nuclides"][str(key)] = obs_nuclide(lib._nuclides[key], lib)
    return o


def is_empty_part(val):
    """No data: None, an empty dict, or a collection whose every field is None / empty."""
    if val is None or val == ("dict", ()) or val == {}:
        return True
    if isinstance(val, dict):
        return all(is_empty_part(x) for x in val.values())
    return False


def diff_paths(a, b, path="", out=None, limit=12):
    """Paths at which two observations differ."""
    out = [] if out is None else out
    if len(out) >= limit:
        return out
    if isinstance(a, dict) and isinstance(b, dict):
        for k in sorted(set(a) | set(b), key=str):
            if k not in a:
                out.append(path + "/" + str(k) + " (added)")
            elif k not in b:
                out.append(path + "/" + str(k) + " (removed)")
            elif a[k] != b[k]:
                diff_paths(a[k], b[k], path + "/" + str(k), out, limit)
    elif a != b:
        out.append(path)
    return out


def short(v):
    """Readable form of a normal-form value for witnesses."""
    if isinstance(v, tuple) and v and v[0] in ("nd", "sparse"):
        arr = np.frombuffer(v[3], dtype=np.dtype(v[1])).reshape(v[2])
        return {"array": arr.tolist() if arr.size <= 16 else "shape %s" % (v[2],)}
    if isinstance(v, tuple) and v and v[0] in ("f", "i", "s", "b"):
        return float.fromhex(v[1]) if v[0] == "f" else v[1]
    return repr(v)[:200]


# ============================================================================= merge oracle
def expected_from_sources(sources):
    """Model of the merged library written from the property: union of parts, common library values."""
    exp = {"nuclides": {}, "owner": {}}
    for si, s in enumerate(sources):
        for label, on in s.obs["nuclides"].items():
            e = exp["nuclides"].setdefault(label, {})
            for kind, parts in PARTS.items():
                if all(is_empty_part(on[p]) for p in parts):
                    continue
                for p in parts:
                    e[p] = on[p]
                exp["owner"][(label, kind)] = si
            e.setdefault("ident", on["ident"])
    return exp


def check_merged(rec, merged, sources, witness, tag="merge"):
    """Judge one merged library against the observations of its sources. Returns its canonical observation."""
    om = obs(merged)
    exp = expected_from_sources(sources)
    union = set(exp["nuclides"])
    got = set(om["labels"])
    rec.hit(tag + ".union")
    if got != union or len(om["labels"]) != len(got) or set(om["dictLabels"]) != got or len(merged) != len(union):
        rec.violation("merge/label-set-not-union", "merged labels %s, union of sources %s (ordered list has %d entries, dict %d)" % (
            sorted(got ^ union), len(union), len(om["labels"]), len(om["dictLabels"])), witness)
    # the public views of the nuclide set agree with the label set: getNuclides('') lists every nuclide once, getNuclides(suffix)
    # exactly those whose label carries the suffix, nuclides/nuclideLabels the same objects in label order
    try:
        rec.hit(tag + ".views")
        allN = merged.getNuclides("")
        if sorted(id(n) for n in allN) != sorted(id(merged[l]) for l in om["labels"]) and len(set(om["labels"])) == len(om["labels"]):
            rec.violation("merge/getNuclides-not-the-label-set", "getNuclides('') returns %d nuclides, the library holds %d labels" % (len(allN), len(om["labels"])), witness)
        for sfx in sorted({l[-2:] for l in om["labels"]}):
            wantS = sorted(id(merged[l]) for l in om["labels"] if l.endswith(sfx))
            gotS = sorted(id(n) for n in merged.getNuclides(sfx))
            if gotS != wantS:
                rec.violation("merge/getNuclides-not-the-label-set", "getNuclides(%r) returns %d nuclides, %d labels end in it" % (sfx, len(gotS), len(wantS)), witness)
                break
    except Exception as e:
        rec.crash("merge-views", e, witness)
    # chi bookkeeping documented by NuclideXSMetadata._getSkippedKeys: with >= 2 ISOTXS metadata and a file-wide chi, the
    # file-wide vector is dropped and fissile nuclides get chiFlag=1 (their micros.chi already is that vector)
    chiRule = {}
    for kind in ("isotxs", "gamiso", "pmatrx"):
        withMeta = [s for s in sources if s.obs["meta"][kind]["data"]]
        chiRule[kind] = len(withMeta) >= 2 and any(s.obs["meta"][kind]["data"].get("chi") is not None for s in withMeta)
    for label in sorted(union & got):
        on = om["nuclides"][label]
        en = exp["nuclides"][label]
        rec.hit("merge.nuclide-identity")
        if not on["inContainer"]:
            rec.violation("merge/nuclide-container-not-target", "%s.container is not the merged library" % label, witness)
        if on["ident"] != en["ident"]:
            rec.violation("merge/nuclide-identity-changed", "%s identity %s != source %s" % (label, on["ident"], en["ident"]), witness)
        for kind, parts in PARTS.items():
            for p in parts:
                want = en.get(p)
                have = on[p]
                if want is None or is_empty_part(want):
                    if not is_empty_part(have):
                        rec.violation("merge/data-from-nowhere/%s" % p, "%s has %s although no source provided it" % (label, p), dict(witness, label=label))
                    continue
                if p == "isotxsMetadata" and chiRule["isotxs"] and isinstance(have, dict) and isinstance(want, dict):
                    # the file-wide chi is gone from the merged file (judged below), so every fissile nuclide - of whichever source -
                    # must now say that it carries its own chi; otherwise the merged library holds fissile nuclides without any chi
                    fis = want.get("fisFlag")
                    if fis is not None and fis[1] > 0:
                        rec.hit("merge.chi-flag-after-file-wide-chi-removal")
                        if have.get("chiFlag") != ("i", 1):
                            rec.violation("merge/file-wide-chi-dropped-but-fissile-nuclide-not-flagged-own-chi",
                                          "%s is fissile (fisFlag %s) and the merged file has no file-wide chi any more, but its chiFlag is %s" % (label, fis[1], have.get("chiFlag")),
                                          dict(witness, label=label))
                            continue
                if have == want:
                    continue
                if p == "isotxsMetadata" and chiRule["isotxs"] and isinstance(have, dict) and isinstance(want, dict):
                    fis = want.get("fisFlag")
                    if fis is not None and fis[1] > 0 and have.get("chiFlag") == ("i", 1) and {k: v for k, v in have.items() if k != "chiFlag"} == {k: v for k, v in want.items() if k != "chiFlag"}:
                        rec.add("chiFlag rewritten to 1 by documented file-wide-chi removal", 1)
                        continue
                where = diff_paths(want, have) if isinstance(want, dict) else [""]
                first = where[0].strip("/").split("/")[0].split(" ")[0] if where and where[0] else ""
                rec.violation("merge/nuclide-data-differs/%s" % p, "%s: %s of the merged nuclide differs from its source at %s" % (label, p, where[:4]),
                              dict(witness, label=label, part=p, field=first))
    # library level
    rec.hit("merge.library-level")
    for prop in PROPS:
        vals = [s.obs["props"][prop] for s in sources if s.obs["props"][prop] is not None]
        have = om["props"][prop]
        if not vals:
            if have is not None:
                rec.violation("merge/property-from-nowhere/%s" % prop, "%s set although no source had it" % prop, witness)
        elif prop == "neutronVelocity":
            if have is None:
                rec.violation("merge/neutronVelocity-lost", "merged library has no neutronVelocity although %d source(s) carried one "
                              "(a library without velocity was merged before the first ISOTXS)" % len(vals), witness)
            elif have not in vals:
                rec.violation("merge/property-differs/neutronVelocity", "merged neutronVelocity equals no source's", witness)
        elif any(v != vals[0] for v in vals):
            raise AssertionError("harness: legal set with conflicting %s" % prop)
        elif have != vals[0]:
            rec.violation("merge/property-differs/%s" % prop, "merged %s = %s, sources have %s" % (prop, short(have), short(vals[0])), witness)
    for kind in KINDS:
        withMeta = [s for s in sources if s.obs["meta"][kind]["data"]]
        have = om["meta"][kind]
        keys = set()
        for s in withMeta:
            keys |= set(s.obs["meta"][kind]["data"])
        for k in sorted(keys | set(have["data"])):
            vals = [s.obs["meta"][kind]["data"][k] for s in withMeta if k in s.obs["meta"][kind]["data"]]
            hv = have["data"].get(k)
            if k == "libraryLabel":
                if vals and hv not in vals:
                    rec.violation("merge/file-metadata-differs/%s/libraryLabel" % kind, "libraryLabel %r is no source's" % (hv,), witness)
                continue
            if chiRule[kind] and k in ("chi", "fileWideChiFlag"):
                if (k == "chi" and hv is not None) or (k == "fileWideChiFlag" and hv != ("i", 0)):
                    rec.violation("merge/file-wide-chi-kept", "%s %s = %s after merging several files with a file-wide chi" % (kind, k, short(hv)), witness)
                continue
            nn = [v for v in vals if v is not None]
            if not nn:
                if hv is not None:
                    rec.violation("merge/file-metadata-from-nowhere/%s/%s" % (kind, k), "metadata %s appeared" % k, witness)
                continue
            if any(v != nn[0] for v in nn):
                raise AssertionError("harness: legal set with conflicting %s metadata %s" % (kind, k))
            if hv != nn[0]:
                rec.violation("merge/file-metadata-differs/%s/%s" % (kind, k), "%s metadata %s = %s, sources have %s" % (kind, k, short(hv), short(nn[0])), witness)
        wantFiles = sorted(f for s in withMeta for f in s.obs["meta"][kind]["fileNames"])
        if sorted(have["fileNames"]) != wantFiles:
            rec.violation("merge/fileNames-not-union/%s" % kind, "fileNames %s, sources %s" % (sorted(have["fileNames"]), wantFiles), witness)
    return canonical(om, sources)


def canonical(om, sources):
    """Order-free content of a merged library (order records removed)."""
    c = {"labels": tuple(sorted(om["labels"])), "props": dict(om["props"]), "nuclides": om["nuclides"], "meta": {}}
    # 'use the first one' (documented); check_merged already demands it equals some source's velocity
    c["props"]["neutronVelocity"] = "judged per order"
    for kind in KINDS:
        c["meta"][kind] = {"data": {k: v for k, v in om["meta"][kind]["data"].items() if k != "libraryLabel"},
                           "fileNames": tuple(sorted(om["meta"][kind]["fileNames"]))}
    return c


def legal_set_shape(sources):
    """Does a source carry a file-wide chi, and does some source hold a label for which it has no ISOTXS data itself?"""
    return {"fileWideChi": any(s.obs["meta"]["isotxs"]["data"].get("chi") is not None for s in sources),
            "labelWithoutIsotxsData": any(is_empty_part(on["isotxsMetadata"]) for s in sources for on in s.obs["nuclides"].values())}


def report_legal_merge_failure(rec, e, sources, w, where):
    """A legal set failed to merge: name the mechanism from the shape of the set where it is a known one."""
    shape = legal_set_shape(sources)
    if isinstance(e, TypeError) and shape["fileWideChi"] and shape["labelWithoutIsotxsData"]:
        rec.violation("merge/legal-set-refused/file-wide-chi-with-nuclide-lacking-isotxs-data/TypeError",
                      "legal merge raises TypeError (%s): a file-wide chi is being dropped while the library holds a nuclide that has "
                      "only gamma/production data (isotxsMetadata['fisFlag'] is None)" % str(e)[:100], w)
    else:
        rec.crash(where, e, w)


def ask_between_merges(rec, lib):
    """Read-only questions to a library that is still being assembled (a caller inspecting it between two merges): what they
    answered then must not be what they answer after the next merge."""
    rec.hit("merge.questions-between-merges")
    try:
        labels = list(lib.nuclideLabels)
        lib.getNuclides("")
        for sfx in sorted({l[-2:] for l in labels})[:3] + ["ZZ"]:
            lib.getNuclides(sfx)
        list(lib.nuclides)
        len(lib)
        list(lib.xsIDs)
        if labels:
            lib.getNuclide(labels[0][:-2], labels[0][-2:])
    except Exception:
        pass


def run_orders(rec, sources, witness, sig, perms, hitname="merge.order", sampleFirst=False):
    """Merge the set in every given order and judge each result and their mutual equality."""
    from armi.nuclearDataIO import xsLibraries

    ref = None
    refPerm = None
    for pi, perm in enumerate(perms):
        for intoEmpty in ((True, False) if pi % 7 == 0 else (pi % 2 == 0,)):
            w = dict(witness, order=list(perm), intoEmpty=intoEmpty)
            try:
                if intoEmpty:
                    target = xsLibraries.IsotxsLibrary()
                    rest = perm
                else:
                    target = sources[perm[0]].fresh()
                    rest = perm[1:]
                for j in rest:
                    if pi % 3 == 1:
                        ask_between_merges(rec, target)
                    target.merge(sources[j].fresh())
            except Exception as e:  # a legal set must merge
                report_legal_merge_failure(rec, e, sources, w, "merge-legal-set")
                rec.case([sig, list(perm), intoEmpty])
                continue
            rec.hit(hitname)
            can = check_merged(rec, target, sources, w)
            if ref is None:
                ref, refPerm = can, perm
            else:
                rec.hit("merge.order-independence")
                if can != ref:
                    where = diff_paths(ref, can)
                    what = where[0].strip("/").split("/") if where else ["?"]
                    cls = what[0] if what[0] != "nuclides" or len(what) < 3 else "nuclides/" + what[2]
                    rec.violation("merge/order-dependent/%s" % cls, "orders %s and %s give different content at %s" % (list(refPerm), list(perm), where[:5]), w)
            rec.case([sig, list(perm), intoEmpty], nontrivial=len(sources) >= 2,
                     sample=dict(w, merged_labels=len(target)) if sampleFirst and pi == 0 else None)


def do_merge(spec, rec):
    base = spec["rng"]
    for i in range(spec["n"]):
        rng = random.Random("%s:%d" % (base, i))
        fam, specs = gen_legal_set(rng, "m%d" % i)
        sources = [make_source(s, fam) for s in specs]
        m = len(sources)
        perms = list(itertools.permutations(range(m)))
        witness = {"case": i, "family": fam, "libs": specs}
        sig = ["merge", fam["ng"], fam["ngam"], [spec_sig(s) for s in specs]]
        run_orders(rec, sources, witness, sig, perms, sampleFirst=i < 2)
        _cleanup(sources)


def _cleanup(sources=None):
    """Remove every file the generator wrote for the finished case."""
    while _paths:
        p = _paths.pop()
        if os.path.exists(p):
            os.remove(p)


# ============================================================================= conflicts
CONFLICTS = ("same-label-same-kind", "same-label-same-kind/premerged", "neutron-bounds", "gamma-bounds", "dose-factors", "file-metadata")


def _part_token(key):
    """Observation key of a nuclide -> the part of the nuclide it belongs to."""
    if key in ("isotxsMetadata", "gamisoMetadata", "pmatrxMetadata", "micros", "gammaXS"):
        return key
    return "pmatrxData" if key in PM_ATTRS else "identity"


def nuclide_change_variant(bn, an, offn):
    """How an existing nuclide of the target differs after a refused merge: (clash kinds, changed parts, chiFlag rewritten?).

    clash kinds = the kinds of data that both the target's nuclide (before) and the offender's nuclide of that label hold;
    changed parts = which parts of the observation differ; a part that held data before is marked '!overwritten'."""
    tokens, chi = set(), False
    for k in sorted(set(bn) | set(an)):
        if bn.get(k) == an.get(k):
            continue
        if k in ("isotxsMetadata", "gamisoMetadata") and isinstance(bn.get(k), dict) and isinstance(an.get(k), dict):
            if {x: v for x, v in bn[k].items() if x != "chiFlag"} == {x: v for x, v in an[k].items() if x != "chiFlag"}:
                chi = True
                continue
        tok = _part_token(k)
        if tok != "identity" and not is_empty_part(bn.get(k)):
            tok += "!overwritten"
        tokens.add(tok)
    clash = []
    if offn is not None:
        for kind, parts in PARTS.items():
            if not all(is_empty_part(bn[p]) for p in parts) and not all(is_empty_part(offn[p]) for p in parts):
                clash.append(kind)
    return clash, sorted(tokens), chi


def classify_changes(before, after, offender=None):
    """Which classes of target state changed during a refused merge (offender = observation of the refused library
    taken before the merge; it names the kind of data the modified nuclide clashes on)."""
    changes = {}
    if after["labels"] != before["labels"] or after["dictLabels"] != before["dictLabels"]:
        changes["nuclides-added"] = {"before": len(before["labels"]), "after": len(after["labels"])}
    pch = [p for p in PROPS if before["props"][p] != after["props"][p]]
    if pch:
        # which properties is part of the mechanism key: only the ones a refused merge installs TODAY are known
        changes["properties/" + "+".join(pch)] = {"changed": pch}
    mch = diff_paths(before["meta"], after["meta"])
    if mch:
        changes["library-metadata"] = {"paths": mch[:5]}
    chi = []
    for label, bn in before["nuclides"].items():
        an = after["nuclides"].get(label)
        if an is None:
            changes.setdefault("existing-nuclide-removed", {"labels": []})["labels"].append(label)
            continue
        if an != bn:
            offn = None if offender is None else offender["nuclides"].get(label)
            clash, tokens, chiOnly = nuclide_change_variant(bn, an, offn)
            if chiOnly:
                chi.append(label)
            if tokens:
                # the variant is part of the mechanism key: only the ways in which a refused merge modifies a nuclide TODAY are known
                cls = "existing-nuclide-modified/%s-clash/%s" % ("+".join(clash) if clash else "no", "+".join(tokens))
                det = changes.setdefault(cls, {"what": []})
                if len(det["what"]) < 4:
                    det["what"].append("%s: %s" % (label, diff_paths(bn, an)[:4]))
    if chi:
        changes["nuclide-chiFlag-rewritten"] = {"labels": chi[:6]}
    return changes


STAGE_OF = {"same-label-same-kind": "clash", "same-label-same-kind/premerged": "clash", "neutron-bounds": "neutron-energy-conflict",
            "gamma-bounds": "gamma-energy-conflict", "dose-factors": "dose-conflict", "file-metadata": "metadata-conflict"}


def judge_refusal(rec, target, offender, before, conflict, witness, named=True, hit="conflict"):
    """Merge an offending library; armi must refuse and leave the target as observed before."""
    offObs = obs(offender)
    try:
        target.merge(offender)
    except Exception as e:
        rec.hit(hit + ".refused")
        rec.hit("%s.refused/%s" % (hit, conflict))
        rec.reject("%s refused with %s" % (conflict, type(e).__name__))
        after = obs(target)
        rec.hit(hit + ".unchanged-check")
        changes = classify_changes(before, after, offObs)
        for cls, det in sorted(changes.items()):
            rec.violation("merge/refused-but-target-changed/%s-before-%s" % (cls, STAGE_OF[conflict]),
                          "merge refused (%s: %s) but the target changed: %s %s" % (type(e).__name__, str(e)[:120].replace("\n", " "), cls, det),
                          dict(witness, error=type(e).__name__, change=det))
        return "refused", changes
    if named:
        rec.violation("merge/conflict-silently-merged/%s" % conflict, "conflicting library (%s) was merged without an error" % conflict, witness)
    else:
        rec.skip("file-metadata difference accepted by armi (not a conflict the property names): %s" % witness.get("detail"))
    return "accepted", {}


def do_conflict(spec, rec):
    from armi.nuclearDataIO import xsLibraries

    base = spec["rng"]
    for i in range(spec["n"]):
        rng = random.Random("%s:%d" % (base, i))
        conflict = CONFLICTS[i % len(CONFLICTS)] if i < 4 * len(CONFLICTS) else rng.choice(CONFLICTS)
        fam, specs = gen_legal_set(rng, "c%d" % i, m=rng.choice([1, 2, 2, 3]), allowComposite=False)
        if conflict == "dose-factors":
            # make the kind applicable: the family carries dose factors and the target holds a PMATRX library
            fam["dose"] = True
            if not any(s_["kind"] == "pmatrx" for s_ in specs):
                specs[0].update(kind="pmatrx", fileChi=False)
        if conflict == "neutron-bounds" and i % 2 == 1:
            # the target knows its neutron group structure but holds no velocity yet (a PMATRX library read before its ISOTXS sibling)
            # and the refused library brings one: nothing of the refused library may stay behind
            specs = [specs[0]]
            specs[0].update(kind="pmatrx", fileChi=False)
            rec.hit("conflict.neutron-bounds.target-without-velocity")
        plan_ = plant_conflict(rng, fam, specs, conflict, "c%d" % i)
        if plan_ is None:
            rec.skip("conflict kind %s not applicable to the generated target (no such data in it)" % conflict)
            continue
        specs, xfam, xspec, detail = plan_
        sources = [make_source(s, fam) for s in specs]
        order = list(range(len(sources)))
        rng.shuffle(order)
        witness = {"case": i, "conflict": conflict, "detail": detail, "family": fam, "target_libs": [specs[j] for j in order],
                   "offender_family_changes": {k: v for k, v in xfam.items() if fam.get(k) != v}, "offender": xspec}
        try:
            intoEmpty = rng.random() < 0.5
            target = xsLibraries.IsotxsLibrary() if intoEmpty else sources[order[0]].fresh()
            for j in (order if intoEmpty else order[1:]):
                target.merge(sources[j].fresh())
            xsrc = make_source(xspec, xfam)
            offender = xsrc.fresh()
        except Exception as e:
            report_legal_merge_failure(rec, e, sources, witness, "conflict-setup-merge")
            continue
        before = obs(target)
        outcome, changes = judge_refusal(rec, target, offender, before, conflict, witness, named=conflict != "file-metadata")
        rec.case(["conflict", conflict, detail, fam["ng"], fam["ngam"], [spec_sig(s) for s in specs], spec_sig(xspec)],
                 sample=dict(witness, outcome=outcome, changed=sorted(changes)) if i < 2 else None)
        _cleanup(sources + [xsrc])


def plant_conflict(rng, fam, specs, conflict, tag):
    """Return (target specs, offender family, offender spec, detail) or None when not applicable."""
    have = set()
    for s in specs:
        have |= spec_keys(s)
    kindsIn = {k for k, _ in have}
    usedIds = {lab[-2:] for _, lab in have}
    newId = [x for x in XSIDS if x not in usedIds][0]
    names = [n for n, _ in rng.sample(POOL, rng.randint(1, 4))]
    xfam = dict(fam)
    if conflict.startswith("same-label-same-kind"):
        kind, label = rng.choice(sorted(have))
        clashName = [n for n, lab in POOL if lab == label[:-2]][0]
        owner = [s for s in specs if (kind, label) in spec_keys(s)][0]
        pos = rng.choice(["first", "middle", "last", "only"])
        others = [n for n in names if n != clashName]
        if conflict.endswith("premerged"):
            # offender = the very file the target already holds for that label + another kind of data for it
            otherKind = rng.choice([k for k in KINDS if k != kind])
            if (otherKind, label) in have:
                return None
            # ... and for the other labels of that file which the target does not yet hold such data for (the usual production set:
            # the ISOTXS, GAMISO and PMATRX files of one cross-section ID name the same nuclides)
            ownerNames = [n for n in owner.get("names", []) if n != clashName and (otherKind, LABEL_OF[n] + label[-2:]) not in have]
            if ownerNames and rng.random() < 0.35:
                # the clash comes late: the offender first brings legitimate new data (another kind) for OTHER labels the target
                # holds, then different data of the same kind for the clashing label
                extra = gen_libspec(rng, fam, otherKind, label[-2:], ownerNames, tag + ".xg")
                clash = gen_libspec(rng, fam, kind, label[-2:], [clashName], tag + ".xc")
                return specs, xfam, {"composite": [extra, clash], "tag": tag + ".x"}, "%s-for-other-labels-then-different-%s" % (otherKind, kind)
            extra = gen_libspec(rng, fam, otherKind, label[-2:], [clashName] + ownerNames + [n for n in others[:1] if n not in ownerNames], tag + ".xg")
            x = {"composite": [dict(owner), extra], "tag": tag + ".x"}
            return specs, xfam, x, "%s-again+%s" % (kind, otherKind)
        if rng.random() < 0.25 and "composite" not in owner:
            # the very same file again (identical numbers): every label of it clashes, the first one at once
            return specs, xfam, dict(owner, tag=tag + ".x"), "%s/whole-file-again/identical" % kind
        x = gen_libspec(rng, fam, kind, newId, others, tag + ".x")
        clash = gen_libspec(rng, fam, kind, label[-2:], [clashName], tag + ".xc", fileChi=x["fileChi"])
        clash["roundtrip"] = x["roundtrip"]
        if pos == "only" or not others:
            return specs, xfam, clash, "%s/only/different" % kind
        cut = {"first": 0, "middle": len(others) // 2, "last": len(others)}[pos]
        # one file: new labels, then the clashing label (it keeps its own suffix), then more new labels
        x["single_file"] = {"before": others[:cut], "clash": clash, "after": others[cut:]}
        return specs, xfam, x, "%s/%s/different" % (kind, pos)
    if conflict == "neutron-bounds":
        if not ({"isotxs", "pmatrx"} & kindsIn):
            return None
        kind = rng.choice(["isotxs", "pmatrx"])
        if len(specs) == 1 and specs[0]["kind"] == "pmatrx":
            kind = "isotxs"  # the offender carries a neutron velocity, the target none
        how = rng.choice(["count", "value", "ulp"])
        if how == "count" or fam["ng"] == 0:
            ng = rng.choice([g for g in range(1, 9) if g != fam["ng"]])
            f2 = gen_family(rng, ng=ng, ngam=fam["ngam"])
            xfam.update({k: f2[k] for k in ("ng", "nBounds", "vel", "ndose")})
        else:
            nb = list(fam["nBounds"])
            j = rng.randrange(len(nb))
            nb[j] = float(np.nextafter(np.float32(nb[j]), np.float32(0))) if how == "ulp" else f32(nb[j] * 0.999)
            xfam["nBounds"] = nb
        return specs, xfam, gen_libspec(rng, xfam, kind, newId, names, tag + ".x"), "%s/%s" % (kind, how)
    if conflict == "gamma-bounds":
        if not ({"gamiso", "pmatrx"} & kindsIn):
            return None
        kind = rng.choice(["gamiso", "pmatrx"])
        how = rng.choice(["count", "value"])
        if how == "count":
            ngam = rng.choice([g for g in range(1, 6) if g != fam["ngam"]])
            f2 = gen_family(rng, ng=fam["ng"], ngam=ngam)
            xfam.update({k: f2[k] for k in ("ngam", "gBounds", "gvel", "gdose")})
        else:
            gb = list(fam["gBounds"])
            j = rng.randrange(len(gb))
            gb[j] = f32(gb[j] * 1.001)
            xfam["gBounds"] = gb
        return specs, xfam, gen_libspec(rng, xfam, kind, newId, names, tag + ".x"), "%s/%s" % (kind, how)
    if conflict == "dose-factors":
        if "pmatrx" not in kindsIn or not fam["dose"]:
            return None
        which = rng.choice(["ndose", "gdose"])
        d = list(fam[which])
        j = rng.randrange(len(d))
        d[j] = f32(d[j] + 0.25)
        xfam[which] = d
        return specs, xfam, gen_libspec(rng, xfam, "pmatrx", newId, names, tag + ".x"), which
    if conflict == "file-metadata":
        kind = rng.choice(sorted(kindsIn))
        if kind == "pmatrx":
            key = rng.choice(["gemin", "pmOrd"])
            xfam[key] = f32(fam["gemin"] * 2) if key == "gemin" else fam["pmOrd"] + 1
        elif kind == "gamiso":
            key = rng.choice(["glay", "maxOrd", "fileId"])
            xfam[key] = (fam["glay"] + [104]) if key == "glay" else fam[key] + 1
        else:
            key = rng.choice(["nlay", "maxOrd", "fileId", "emin", "maxUp"])
            xfam[key] = (fam["nlay"] + [103]) if key == "nlay" else f32(fam["emin"] + 1.0) if key == "emin" else fam[key] + 1
        return specs, xfam, gen_libspec(rng, xfam, kind, newId, names, tag + ".x"), "%s/%s" % (kind, key)
    raise AssertionError(conflict)


# ============================================================================= macroscopic
class Composition:
    """Duck-typed stand-in for a block: a nuclide -> number density map and an xs suffix."""

    def __init__(self, dens, suffix):
        self.dens, self.suffix = dict(dens), suffix

    def getNuclides(self):
        return list(self.dens)

    def getMicroSuffix(self):
        return self.suffix

    def getNuclideNumberDensities(self, names):
        return [self.dens.get(n, 0.0) for n in names]

    def getNumberDensities(self):
        return dict(self.dens)

    def __repr__(self):
        return "<Composition %s>" % self.suffix


def close(a, b, scale, rel):
    a = np.asarray(a, dtype=float)
    b = np.asarray(b, dtype=float)
    if a.shape != b.shape:
        return False
    return bool(np.all(np.abs(a - b) <= rel * np.maximum(scale, 1e-300)))


def dense(m):
    return np.asarray(m.toarray()) if hasattr(m, "toarray") else np.asarray(m)


def ref_sum(table, dens, attr, mult=None):
    """Reference: sum_i N_i * sigma_i (* multiplier_i) and the sum of magnitudes (tolerance scale)."""
    tot, mag = None, None
    for name in sorted(dens):
        if not dens[name] or name not in table:
            continue
        x = table[name][attr]
        if x is None:
            continue
        term = dens[name] * dense(x) * (1.0 if mult is None else np.asarray(table[name][mult]))
        tot = term if tot is None else tot + term
        mag = np.abs(term) if mag is None else mag + np.abs(term)
    return tot, mag


VEC = ("nGamma", "fission", "nalph", "np", "nd", "nt", "n2n")
MATS = ("elasticScatter", "inelasticScatter", "n2nScatter")


def micro_table(lib, suffix):
    """name -> plain dict of the stored arrays for every nuclide of the suffix (read straight off the objects)."""
    t = {}
    for label, nuc in lib.items():
        if str(label)[-2:] != suffix:
            continue
        d = {k: nuc.micros.__dict__.get(k) for k in VEC + MATS + ("transport", "total", "neutronsPerFission", "chi")}
        g = {("g:" + k): nuc.gammaXS.__dict__.get(k) for k in VEC + MATS + ("transport", "total", "neutronsPerFission")}
        d.update(g)
        d["efiss"] = nuc.isotxsMetadata["efiss"]
        d["ecapt"] = nuc.isotxsMetadata["ecapt"]
        d["neutronHeating"] = nuc.neutronHeating
        d["gammaHeating"] = nuc.gammaHeating
        t[nuc.name] = d
    return t


def gen_composition(rng, present, missing, allowMissing=True):
    d = {}
    for n in present:
        r = rng.random()
        if r < 0.75:
            d[n] = rng.choice([rng.uniform(1e-6, 0.08), rng.uniform(1e-12, 1e-8), rng.uniform(0.01, 0.05)])
        elif r < 0.85:
            d[n] = 0.0
    if allowMissing:
        for n in missing:
            if rng.random() < 0.3:
                d[n] = 0.0 if rng.random() < 0.6 else rng.uniform(1e-6, 0.01)
    return d


def judge_creator_output(rec, mac, table, dens, nm_, w, pre, ng, hit, sfx, judgeChi=True):
    """One XSCollection made by the creator against the reference sums (pre = '' neutron table, 'g:' gamma table)."""
    REL = TOLERANCES["macro_rel"]
    rec.hit(hit + ".creator" + sfx)
    refv = {}
    for k in VEC + ("transport", "total"):
        refv[k] = ref_sum(table, dens, pre + k)
    refv["nuSigF"] = ref_sum(table, dens, pre + "fission", pre + "neutronsPerFission")
    for k in MATS:
        refv[k] = ref_sum(table, dens, pre + k)
    for k, (want, mag) in refv.items():
        got = getattr(mac, k)
        if want is None:
            want, mag = (np.zeros((ng, ng)), np.zeros((ng, ng))) if k in MATS else (None, None)
        if want is None:
            continue
        if got is None or not close(dense(got), want, mag, REL):
            rec.violation("macro/creator-not-weighted-sum/%s%s" % (pre, k), "macros.%s (%s table) for %s differs from sum N*sigma" % (k, pre or "neutron", nm_), dict(w, field=k, composition=nm_))
    # derived quantities from their defining sums (of the reference values)
    rec.hit(hit + ".derived" + sfx)
    zeros = np.zeros(ng)
    absr = sum((refv[k][0] if refv[k][0] is not None else zeros) for k in VEC)
    absmag = sum((refv[k][1] if refv[k][1] is not None else zeros) for k in VEC)
    if not close(mac.absorption, absr, absmag, 4 * REL):
        rec.violation("macro/derived/%sabsorption" % pre, "absorption != nGamma+fission+nalph+np+nd+nt+n2n for %s" % nm_, dict(w, got=np.asarray(mac.absorption).tolist(), want=np.asarray(absr).tolist()))
    zm = np.zeros((ng, ng))
    el, inel, n2n = [(refv[k][0] if refv[k][0] is not None else zm) for k in MATS]
    tot = el + inel + 2.0 * n2n
    if not close(dense(mac.totalScatter), tot, np.abs(tot), 4 * REL):
        rec.violation("macro/derived/%stotalScatter" % pre, "totalScatter != elastic + inelastic + 2*n2n for %s" % nm_, dict(w, composition=nm_))
    n2nv = refv["n2n"][0] if refv["n2n"][0] is not None else zeros
    rem = absr - n2nv + tot.sum(axis=0) - np.diag(tot)
    remmag = absmag + np.abs(tot).sum(axis=0)
    if not close(mac.removal, rem, remmag, 8 * REL):
        rec.violation("macro/derived/%sremoval" % pre, "removal != absorption - n2n + out-scatter for %s" % nm_, dict(w, got=np.asarray(mac.removal).tolist(), want=np.asarray(rem).tolist()))
    tr = refv["transport"][0]
    if tr is not None and np.all(tr > 0):
        if not close(mac.diffusionConstants, 1.0 / (3.0 * tr), 1.0 / (3.0 * tr), 8 * REL):
            rec.violation("macro/derived/%sdiffusionConstants" % pre, "D != 1/(3 Sigma_tr) for %s" % nm_, dict(w, composition=nm_))
    if judgeChi:
        # block-average chi: fission-source weighted mean (documented formula)
        num, den = np.zeros(ng), 0.0
        for n in sorted(dens):
            if n in table and dens[n]:
                src = float(np.sum(np.asarray(table[n]["neutronsPerFission"]) * np.asarray(table[n]["fission"])))
                num = num + np.asarray(table[n]["chi"]) * dens[n] * src
                den += dens[n] * src
        wantChi = num / den if den else np.zeros(ng)
        if not close(mac.chi, wantChi, np.maximum(np.abs(wantChi), 1e-30), TOLERANCES["chi_rel"]):
            rec.violation("macro/derived/chi", "macros.chi is not the fission-source weighted mean for %s" % nm_, dict(w, composition=nm_))


def judge_macros(rec, rng, lib, suffix, table, witness, hit="macro", haveGamma=False, havePmatrx=False, multLib=None):
    """All macroscopic oracles for one library+suffix and a freshly drawn pair of compositions."""
    from armi.nuclearDataIO import xsCollections as xc
    from armi.utils import units

    REL = TOLERANCES["macro_rel"]
    present = sorted(table)
    missing = [n for n, _ in POOL if n not in table][:6]
    n1 = gen_composition(rng, present, missing, allowMissing=False)
    n2 = gen_composition(rng, present, missing, allowMissing=False)
    a, b = rng.uniform(0.1, 3.0), rng.uniform(0.1, 3.0)
    combo = {n: a * n1.get(n, 0.0) + b * n2.get(n, 0.0) for n in set(n1) | set(n2)}
    w = dict(witness, N1=n1, N2=n2, a=a, b=b)

    def gc(reaction, dens, **kw):
        return xc.computeMacroscopicGroupConstants(reaction, dens, lib, suffix, **kw)

    reactions = [(r, "micros", None) for r in VEC + ("transport", "total")] + [("fission", "micros", "neutronsPerFission")]
    if haveGamma:
        reactions += [(r, "gammaXS", None) for r in ("nGamma", "transport", "total")]
    nonempty = any(n1.get(n) for n in present) and any(n2.get(n) for n in present)
    for reaction, libType, mult in reactions:
        pre = "g:" if libType == "gammaXS" else ""
        key = "%s%s%s" % (pre, reaction, "*" + mult if mult else "")
        try:
            m1, m2, mc = gc(reaction, n1, libType=libType, multConstant=mult), gc(reaction, n2, libType=libType, multConstant=mult), gc(reaction, combo, libType=libType, multConstant=mult)
        except Exception as e:
            rec.crash("computeMacroscopicGroupConstants", e, dict(w, reaction=key))
            continue
        for dens, got, nm in ((n1, m1, "N1"), (n2, m2, "N2"), (combo, mc, "aN1+bN2")):
            want, mag = ref_sum(table, dens, pre + reaction, (pre + mult) if mult else None)
            if want is None:
                continue  # nothing present with a density: the empty case is judged separately
            rec.hit(hit + ".groupconstant")
            if got is None or not close(got, want, mag, REL):
                rec.violation("macro/groupconstant-not-weighted-sum/%s" % key, "computeMacroscopicGroupConstants(%s) for %s differs from sum N*sigma" % (key, nm),
                              dict(w, reaction=key, got=None if got is None else np.asarray(got).tolist(), want=want.tolist()))
        if m1 is not None and m2 is not None and mc is not None:
            rec.hit(hit + ".linearity")
            if not close(mc, a * m1 + b * m2, a * np.abs(m1) + b * np.abs(m2), 4 * REL):
                rec.violation("macro/not-linear/%s" % key, "M(aN1+bN2) != aM(N1)+bM(N2) for %s" % key, dict(w, reaction=key))
        if mc is not None:
            try:
                parts = [gc(reaction, {n: v}, libType=libType, multConstant=mult) for n, v in sorted(combo.items()) if v]
                rec.hit(hit + ".additivity")
                tot = sum((p for p in parts if p is not None), np.zeros_like(np.asarray(mc, dtype=float)))  # the empty sum is the zero vector
                if not close(mc, tot, np.abs(tot), 4 * REL):
                    rec.violation("macro/not-additive/%s" % key, "M(N) != sum_i M({i:N_i}) for %s" % key, dict(w, reaction=key))
            except Exception as e:
                rec.crash("computeMacroscopicGroupConstants-single-nuclide", e, dict(w, reaction=key))

    # nuclides missing from the library: zero density is skipped, a positive density is refused (documented) or ignored
    nm = gen_composition(rng, present, missing, allowMissing=True)
    if missing:
        nm.setdefault(missing[0], 0.0)
        for posMissing in (False, True):
            d = dict(nm)
            if posMissing:
                d[missing[-1]] = 0.003
            else:
                d = {k: (0.0 if k in missing else v) for k, v in d.items()}
            try:
                got = gc("nGamma", d, libType="micros")
            except ValueError:
                if posMissing:
                    rec.reject("composition with a positive density of a nuclide missing from the library refused (documented ValueError)")
                else:
                    rec.violation("macro/missing-nuclide-zero-density-refused", "a zero-density nuclide missing from the library was refused", dict(w, N=d))
                continue
            except Exception as e:
                rec.crash("computeMacroscopicGroupConstants-missing-nuclide", e, dict(w, N=d))
                continue
            want, mag = ref_sum(table, d, "nGamma")
            if want is not None:
                rec.hit(hit + ".groupconstant")
                if got is None or not close(got, want, mag, REL):
                    rec.violation("macro/groupconstant-not-weighted-sum/missing-nuclides", "result with missing nuclides is not the sum over the present ones", dict(w, N=d))

    # empty composition: zero
    for label, d in (("empty-map", {}), ("all-zero-densities", {n: 0.0 for n in present[:3]})):
        rec.hit(hit + ".empty")
        try:
            got = gc("nGamma", d, libType="micros")
            if got is None:
                rec.violation("macro/empty-composition/groupconstants-return-None", "computeMacroscopicGroupConstants returns None (not zeros) for %s" % label, dict(witness, N=d))
            elif np.asarray(got).any():
                rec.violation("macro/empty-composition/nonzero", "non-zero macroscopic constants for %s" % label, dict(witness, N=d))
        except Exception as e:
            rec.crash("computeMacroscopicGroupConstants-empty", e, dict(witness, N=d))
        try:
            mac = xc.MacroscopicCrossSectionCreator().createMacrosFromMicros(lib, Composition(d, suffix))
            bad = [k for k in VEC + ("absorption", "removal", "nuSigF") if getattr(mac, k) is None or np.asarray(getattr(mac, k)).any()]
            bad += [k for k in MATS + ("totalScatter",) if getattr(mac, k) is None or dense(getattr(mac, k)).any()]
            if bad:
                rec.violation("macro/empty-composition/nonzero", "createMacrosFromMicros gives non-zero/None %s for %s" % (bad, label), dict(witness, N=d))
        except Exception as e:
            rec.violation("macro/empty-composition/creator-raises-%s" % type(e).__name__,
                          "createMacrosFromMicros raises %s for %s: %s" % (type(e).__name__, label, str(e)[:160]), dict(witness, N=d))

    # compositions naming nuclides the library does not hold: at zero density they contribute nothing, at a positive density
    # the composition is refused (documented ValueError of computeMacroscopicGroupConstants)
    n1m = dict(n1)
    for n in missing[:3]:
        n1m[n] = 0.0
    n1p = dict(n1m)
    if missing:
        n1p[missing[-1]] = 0.004
    wm = dict(w, N1_with_missing_at_zero=n1m, N1_with_missing_positive=n1p)

    # the creator: every output against the reference and the derived sums against their definitions; once per table the
    # production code asks for (libType="micros" neutron, libType="gammaXS" gamma - macroXSGenerationInterface passes its libType)
    for libType, pre, sfx in (("micros", "", ""), ("gammaXS", "g:", "-gamma")):
        if pre and not haveGamma:
            continue
        if not nonempty:
            continue
        need = VEC + ("transport", "total", "neutronsPerFission") + (() if pre else ("chi",))
        if not all(table[n][pre + k] is not None for n in present for k in need) or not all(table[n][k] is not None for n in present for k in ("fission", "neutronsPerFission", "chi")):
            rec.skip("creator (%s) not judged: a nuclide of the suffix lacks %s data (label with only other kinds of data)" % (libType, "gamma" if pre else "neutron"))
            continue
        ng = len(np.asarray(table[present[0]][pre + "nGamma"]))
        comps = [("N1", n1), ("N2", n2), ("aN1+bN2", combo)] + ([("N1+missing@0", n1m)] if missing else [])
        macs = {}
        for nm_, dens in comps:
            try:
                macs[nm_] = xc.MacroscopicCrossSectionCreator().createMacrosFromMicros(lib, Composition(dens, suffix), libType=libType)
            except Exception as e:
                rec.crash("createMacrosFromMicros" + sfx, e, dict(wm, composition=nm_, libType=libType))
                break
        for nm_, dens in comps:
            if nm_ in macs:
                judge_creator_output(rec, macs[nm_], table, dens, nm_, wm, pre, ng, hit, sfx, judgeChi=not pre)
                if nm_ == "N1+missing@0":
                    rec.hit(hit + ".creator-missing")
        if all(k in macs for k in ("N1", "N2", "aN1+bN2")):
            rec.hit(hit + ".linearity")
            for k in VEC + ("transport", "total", "nuSigF", "absorption", "removal") + MATS + ("totalScatter",):
                x1, x2, x12 = dense(getattr(macs["N1"], k)), dense(getattr(macs["N2"], k)), dense(getattr(macs["aN1+bN2"], k))
                scale = a * np.abs(x1) + b * np.abs(x2)
                if k == "removal":  # a difference of sums: the error scales with the terms, not with the result
                    scale = sum(f * (np.abs(np.asarray(macs[n].absorption)) + np.abs(dense(macs[n].totalScatter)).sum(axis=0)) for f, n in ((a, "N1"), (b, "N2")))
                if not close(x12, a * x1 + b * x2, scale, 16 * REL):
                    rec.violation("macro/creator-not-linear/%s%s" % (pre, k), "macros.%s(aN1+bN2) != a macros(N1) + b macros(N2)" % k, dict(w, field=k))
        # nucNames=: only the named nuclides of the composition are summed (names the composition lacks count as density 0)
        pos = sorted(n for n in combo if combo[n] and n in table)
        if pos:
            subset = sorted(rng.sample(pos, rng.randint(1, len(pos))))
            extra = [n for n in present if n not in combo][:1] + missing[:1]
            asked = subset + ([rng.choice(extra)] if extra and rng.random() < 0.5 else [])
            wn = dict(w, nucNames=asked, libType=libType)
            try:
                mac = xc.MacroscopicCrossSectionCreator().createMacrosFromMicros(lib, Composition(combo, suffix), nucNames=list(asked), libType=libType)
            except Exception as e:
                rec.crash("createMacrosFromMicros-nucNames" + sfx, e, wn)
                mac = None
            if mac is not None:
                rec.hit(hit + ".creator-nucnames")
                # chi is documented as the block's fission-source average (all nuclides of the block): not judged here
                judge_creator_output(rec, mac, table, {n: combo[n] for n in subset}, "aN1+bN2[nucNames]", wn, pre, ng, hit, sfx, judgeChi=False)
        if missing:
            try:
                mac = xc.MacroscopicCrossSectionCreator().createMacrosFromMicros(lib, Composition(n1p, suffix), libType=libType)
            except ValueError:
                rec.reject("creator: composition with a positive density of a nuclide missing from the library refused (documented ValueError)")
                rec.hit(hit + ".creator-missing")
            except Exception as e:
                rec.crash("createMacrosFromMicros-missing-nuclide" + sfx, e, dict(wm, libType=libType))
            else:
                rec.hit(hit + ".creator-missing")
                judge_creator_output(rec, mac, table, n1p, "N1+missing>0 (accepted)", wm, pre, ng, hit, sfx, judgeChi=not pre)

    # multLib=: the multiplier is taken from the same nuclide of another library; nuclides that library lacks contribute nothing
    if multLib is not None:
        mtable = micro_table(multLib, suffix)
        for reaction, mult in (("fission", "neutronsPerFission"), ("fission", "efiss"), ("nGamma", "ecapt")):
            for dens, nm_ in ((n1, "N1"), (combo, "aN1+bN2")):
                if not all(table[n][reaction] is not None for n in present if dens.get(n)):
                    continue
                wl = dict(w, reaction="%s*%s@multLib" % (reaction, mult), multLib_nuclides=sorted(mtable), composition=nm_)
                try:
                    got = gc(reaction, dens, libType="micros", multConstant=mult, multLib=multLib)
                except Exception as e:
                    rec.crash("computeMacroscopicGroupConstants-multLib", e, wl)
                    continue
                want, mag = None, None
                for n in sorted(dens):
                    if dens[n] and n in table and n in mtable and mtable[n][mult] is not None:
                        term = dens[n] * np.asarray(table[n][reaction]) * np.asarray(mtable[n][mult])
                        want = term if want is None else want + term
                        mag = np.abs(term) if mag is None else mag + np.abs(term)
                if want is None:
                    continue
                rec.hit(hit + ".multlib")
                if got is None or not close(got, want, mag, REL):
                    rec.violation("macro/groupconstant-not-weighted-sum/multLib/%s*%s" % (reaction, mult),
                                  "computeMacroscopicGroupConstants(%s, multConstant=%s, multLib=other library) differs from sum N*sigma*mult(other)" % (reaction, mult),
                                  dict(wl, got=None if got is None else np.asarray(got).tolist(), want=want.tolist()))

    # energy deposition / generation constants
    for fn, attr, mult, factor, needs in (
        ("computeFissionEnergyGenerationConstants", "fission", "efiss", 1.0, "neutron"),
        ("computeCaptureEnergyGenerationConstants", None, "ecapt", 1.0, "neutron"),
        ("computeNeutronEnergyDepositionConstants", "neutronHeating", None, units.JOULES_PER_eV, "pmatrx"),
        ("computeGammaEnergyDepositionConstants", "gammaHeating", None, units.JOULES_PER_eV, "pmatrx"),
    ):
        if needs == "pmatrx" and not havePmatrx:
            continue
        for dens, nm_ in ((n1, "N1"), (combo, "aN1+bN2"), (n1m, "N1+missing@0"), (n1p, "N1+missing>0")):
            if not any(dens.get(n) for n in present) or (not missing and nm_.startswith("N1+")):
                continue
            usable = all((table[n][attr] if attr else table[n]["nGamma"]) is not None and (mult is None or table[n][mult] is not None) for n in present if dens.get(n))
            try:
                got = getattr(xc, fn)(dens, lib, suffix)
            except Exception as e:
                if nm_ == "N1+missing>0" and isinstance(e, ValueError):
                    rec.reject("%s: composition with a positive density of a nuclide missing from the library refused (documented ValueError)" % fn)
                    rec.hit(hit + ".energy-missing")
                elif usable:
                    rec.crash(fn, e, dict(w, fn=fn))
                else:
                    rec.reject("%s refused: a nuclide of the composition has no such data in the library (%s)" % (fn, type(e).__name__))
                continue
            if not usable:
                # armi treated the nuclide without such data as contributing nothing: then the rest must still be the weighted sum
                rec.add("%s: nuclide without the data treated as zero contribution" % fn, 1)
            if attr:
                want, mag = ref_sum(table, dens, attr, mult)
            else:
                want, mag = None, None
                for r in ("nGamma", "nalph", "np", "nd", "nt"):
                    x, m_ = ref_sum(table, dens, r, mult)
                    if x is not None:
                        want = x if want is None else want + x
                        mag = m_ if mag is None else mag + m_
            if want is None:
                rec.skip("%s: no nuclide of the composition has the data, armi returned a value: not judged" % fn)
                continue
            rec.hit(hit + ".energy")
            if nm_.startswith("N1+"):
                rec.hit(hit + ".energy-missing")
            if got is None or not close(got, want * factor, mag * factor, 4 * REL):
                rec.violation("macro/energy-constants/%s" % fn, "%s for %s differs from the density-weighted sum" % (fn, nm_), dict(wm, fn=fn, composition=nm_))
    return n1, n2


def judge_total_scatter(rec, lib, witness, hit="macro"):
    """XSCollection.getTotalScatterMatrix == elastic + inelastic + 2*n2n, absent matrices skipped (docstring)."""
    for label, nuc in lib.items():
        for collName in ("micros", "gammaXS"):
            c = getattr(nuc, collName)
            comps = [(c.elasticScatter, 1.0), (c.inelasticScatter, 1.0), (c.n2nScatter, 2.0)]
            if all(m is None for m, _ in comps):
                continue
            rec.hit(hit + ".totalscatter")
            want = sum(dense(m) * f for m, f in comps if m is not None)
            absent = [n for n, (m, _) in zip(("elastic", "inelastic", "n2n"), comps) if m is None]
            try:
                got = c.getTotalScatterMatrix()
            except Exception as e:
                mech = "n2n-matrix-absent" if "n2n" in absent else ("%s-matrix-absent" % "+".join(absent) if absent else "all-present")
                rec.violation("totalscatter/%s/raises-%s" % (mech, type(e).__name__),
                              "getTotalScatterMatrix raises %s when the %s scatter matrix is absent (docstring: absent matrices are skipped)" % (type(e).__name__, "+".join(absent)),
                              dict(witness, label=str(label), collection=collName, absent=absent, error=str(e)[:160]))
                continue
            if not close(dense(got), want, np.abs(want), 4 * TOLERANCES["macro_rel"]):
                rec.violation("totalscatter/not-elastic+inelastic+2*n2n", "%s.%s total scatter differs from its definition (absent: %s)" % (label, collName, absent),
                              dict(witness, label=str(label), collection=collName, absent=absent))


def do_macro(spec, rec):
    from armi.nuclearDataIO import xsLibraries

    base = spec["rng"]
    for i in range(spec["n"]):
        rng = random.Random("%s:%d" % (base, i))
        # a merged library: neutron data for every label of one suffix (+ gamma / production data for most), + unrelated libs
        fam = gen_family(rng)
        names = [n for n, _ in rng.sample(POOL, rng.randint(1, 6))]
        xsid, other = rng.sample(XSIDS, 2)
        complete = rng.random() < 0.6
        specs = [gen_libspec(rng, fam, "isotxs", xsid, names, "q%d.n" % i, complete=complete)]
        haveG = rng.random() < 0.6
        haveP = rng.random() < 0.7
        if haveG:
            specs.append(gen_libspec(rng, fam, "gamiso", xsid, names, "q%d.g" % i))
        if haveP:
            specs.append(gen_libspec(rng, fam, "pmatrx", xsid, names if rng.random() < 0.8 else names[:1], "q%d.p" % i, complete=rng.random() < 0.8))
        if rng.random() < 0.5:
            specs.append(gen_libspec(rng, fam, "isotxs", other, [n for n, _ in rng.sample(POOL, 2)], "q%d.o" % i))
        order = list(range(len(specs)))
        rng.shuffle(order)
        witness = {"case": i, "family": fam, "libs": [specs[j] for j in order], "suffix": xsid}
        sources = [make_source(s, fam) for s in specs]
        try:
            lib = xsLibraries.IsotxsLibrary()
            for j in order:
                if i % 3 == 1:
                    ask_between_merges(rec, lib)
                lib.merge(sources[j].fresh())
        except Exception as e:
            report_legal_merge_failure(rec, e, sources, witness, "macro-setup-merge")
            continue
        table = micro_table(lib, xsid)
        # a second, separate library of the same suffix holding other multipliers for some of the nuclides (multLib=)
        mspec = gen_libspec(rng, fam, "isotxs", xsid, rng.sample(names, rng.randint(1, len(names))), "q%d.m" % i, fileChi=False)
        msrc = make_source(mspec, fam)
        sources.append(msrc)
        witness["multLib"] = mspec
        n1, n2 = judge_macros(rec, rng, lib, xsid, table, witness, haveGamma=haveG, havePmatrx=haveP, multLib=msrc.fresh())
        judge_total_scatter(rec, lib, witness)
        rec.case(["macro", fam["ng"], fam["ngam"], [spec_sig(s) for s in specs], sorted(n1), sorted(n2)],
                 nontrivial=bool(n1 or n2), sample={"suffix": xsid, "libs": [spec_sig(s) for s in specs], "N1": n1, "N2": n2} if i < 2 else None)
        _cleanup(sources)


# ============================================================================= COMPXS (region) libraries
CX_VECTORS = ("fissionWattSeconds", "captureWattSeconds", "compFamiliesWithPrecursors")  # one entry per region (COMPXS records 2D/5D)
CX_PROPS = ("neutronEnergyUpperBounds", "neutronVelocity")


def gen_cx_family(rng, ng=None):
    ng = ng or rng.choice([1, 2, 3, 3, 4, 5, 6])
    return {"ng": ng, "bounds": descending(rng, ng, 1.0, 1.4e7), "vel": descending(rng, ng, 1e5, 5e9), "emin": f32(rng.choice([0.0, 1e-5, 0.414])),
            "maxUp": rng.choice([0, 0, 1, 2]), "maxOrd": rng.choice([0, 0, 1, 2, 3])}


def build_compxs(spec, fam):
    """A real CompxsLibrary of spec['nreg'] regions (numbers 0..n-1) with random macroscopic data, built through CompxsRegion."""
    from scipy import sparse

    from armi.nuclearDataIO import xsLibraries
    from armi.nuclearDataIO.cccc import compxs
    from armi.nuclearDataIO.nuclearFileMetadata import REGIONXS_POWER_CONVERT_DIRECTIONAL_DIFF
    from armi.utils import properties

    vr = random.Random(spec["vseed"])
    ng, n = fam["ng"], spec["nreg"]
    lib = xsLibraries.CompxsLibrary()
    md = lib.compxsMetadata
    fissile = [vr.random() < 0.5 for _ in range(n)]
    for k, v in (("numComps", n), ("numGroups", ng), ("fileWideChiFlag", 0), ("numFissComps", sum(fissile)), ("maxUpScatterGroups", min(fam["maxUp"], ng - 1)),
                 ("maxDownScatterGroups", ng - 1), ("numDelayedFam", 0), ("maxScatteringOrder", fam["maxOrd"]), ("reservedFlag1", 0), ("reservedFlag2", 0),
                 ("minimumNeutronEnergy", fam["emin"])):
        md[k] = v
    md["compFamiliesWithPrecursors"] = np.zeros(n, dtype=int)
    md["fissionWattSeconds"] = rvals(vr, n, 1e10, 4e10)
    md["captureWattSeconds"] = rvals(vr, n, 1e11, 9e11)
    properties.unlockImmutableProperties(lib)
    try:
        lib.neutronVelocity = np.array(fam["vel"] if spec["sameVelocity"] else [f32(v * 1.5) for v in fam["vel"]], dtype=float)
        lib.neutronEnergyUpperBounds = np.array(fam["bounds"], dtype=float)
    finally:
        properties.lockImmutableProperties(lib)
    for i in range(n):
        reg = compxs.CompxsRegion(lib, i)
        m = reg.metadata
        m["chiFlag"] = 1 if fissile[i] else 0
        up = [min(md["maxUpScatterGroups"], ng - 1 - g, vr.randint(0, 2)) for g in range(ng)]
        down = [vr.randint(0, g) for g in range(ng)]
        m["numUpScatterGroups"] = np.array(up)
        m["numDownScatterGroups"] = np.array(down)
        reg.allocateXS(ng)
        for xs in ("absorption", "total", "removal", "transport"):
            reg.macros[xs] = rvals(vr, ng, 0.001, 2.0)
        reg.macros.n2n = rvals(vr, ng, 0.0, 0.01, pzero=0.5)
        if fissile[i]:
            reg.macros.fission = rvals(vr, ng, 0.001, 0.2)
            reg.macros.nuSigF = rvals(vr, ng, 0.002, 0.6)
            reg.macros.chi = np.array([rvals(vr, 1, 0.0, 1.0) for _ in range(ng)])

        def band():
            d = np.zeros((ng, ng))
            for g in range(ng):  # column g holds rows g-down..g+up (COMPXS stores the scatter INTO group g)
                for r in range(g - down[g], g + up[g] + 1):
                    d[r, g] = f32(vr.uniform(0.001, 1.0))
            return sparse.csc_matrix(d)

        reg.macros.totalScatter = band()
        for order in range(1, fam["maxOrd"] + 1):
            reg.macros.higherOrderScatter[order] = band()
        for datum in REGIONXS_POWER_CONVERT_DIRECTIONAL_DIFF:
            m[datum] = [f32(vr.uniform(0.5, 2.0)) for _ in range(ng)]
    return lib


class CxSource:
    """One COMPXS library of a merge set; fresh() gives independent copies, obs is what it held when made."""

    def __init__(self, spec, reader, path):
        self.spec, self.reader, self.path, self.n = spec, reader, path, 0
        self.master = reader(path)
        self.obs = obs_compxs(self.master)
        md = self.master.compxsMetadata
        self.vectors = {k: np.array(md[k]) for k in CX_VECTORS}
        self.nreg = len(self.obs["labels"])

    def fresh(self):
        self.n += 1
        return self.reader(self.path) if self.n % 3 == 0 else copy.deepcopy(self.master)


def make_cx_source(spec, fam):
    """Generated COMPXS library, written with armi's writer and read back: the judged objects are what the reader produces."""
    from armi.nuclearDataIO.cccc import compxs

    built = build_compxs(spec, fam)
    _counter[0] += 1
    path = os.path.abspath("compxs-%d" % _counter[0])
    compxs.writeBinary(built, path)
    _paths.append(path)
    return CxSource(spec, compxs.readBinary, path)


def obs_compxs(lib):
    o = {"labels": tuple(lib._orderedNuclideLabels), "dictLabels": tuple(sorted(lib._regions)),
         "props": {p: norm(lib.__dict__.get("_" + p, None)) for p in CX_PROPS},
         "meta": {"data": {str(k): norm(v) for k, v in lib.compxsMetadata.items() if v is not None}, "fileNames": tuple(str(x) for x in lib.compxsMetadata.fileNames),
                  "cls": type(lib.compxsMetadata).__name__},
         "regions": {}}
    for key, reg in lib._regions.items():
        o["regions"][key] = {"metadata": {str(k): norm(v) for k, v in reg.metadata.items() if v is not None}, "macros": obs_collection(reg.macros),
                             "inContainer": reg.container is lib, "regionNumber": reg.regionNumber,
                             "extraAttrs": tuple(sorted(set(reg.__dict__) - {"container", "regionNumber", "macros", "metadata"}))}
    return o


def check_cx_merged(rec, merged, ordered, witness):
    """Judge a merged COMPXS library against the observations of its sources, in the order they were merged."""
    om = obs_compxs(merged)
    total = sum(s.nreg for s in ordered)
    rec.hit("compxs.union")
    if om["labels"] != tuple(range(total)) or om["dictLabels"] != tuple(range(total)) or len(merged) != total or len(merged.regions) != total:
        rec.violation("compxs-merge/region-labels-not-0..n-1", "merged region labels %s (dict %s), sources hold %s regions" % (list(om["labels"])[:12], list(om["dictLabels"])[:12],
                      [s.nreg for s in ordered]), witness)
    offset = 0
    stale = 0
    for si, s in enumerate(ordered):
        for j in range(s.nreg):
            have = om["regions"].get(offset + j)
            want = s.obs["regions"][j]
            if have is None:
                continue  # reported by the label check
            rec.hit("compxs.region-identity")
            if not have["inContainer"]:
                rec.violation("compxs-merge/region-container-not-target", "region %d .container is not the merged library" % (offset + j), witness)
            for part in ("metadata", "macros", "extraAttrs"):
                if have[part] != want[part]:
                    where = diff_paths(want[part], have[part]) if isinstance(want[part], dict) else [""]
                    rec.violation("compxs-merge/region-data-differs/%s" % part, "merged region %d differs from region %d of source %d at %s" % (offset + j, j, si, where[:4]),
                                  dict(witness, region=offset + j, part=part))
            stale += have["regionNumber"] != offset + j
        offset += s.nreg
    if stale:
        rec.add("compxs: merged regions whose .regionNumber attribute still is the number in the source (not judged; the library key is the label)", stale)
    rec.hit("compxs.library-level")
    vals = [s.obs["props"]["neutronEnergyUpperBounds"] for s in ordered]
    if om["props"]["neutronEnergyUpperBounds"] != vals[0]:
        rec.violation("compxs-merge/property-differs/neutronEnergyUpperBounds", "merged bounds differ from the sources'", witness)
    if om["props"]["neutronVelocity"] not in [s.obs["props"]["neutronVelocity"] for s in ordered]:
        rec.violation("compxs-merge/property-differs/neutronVelocity", "merged neutronVelocity equals no source's", witness)
    md = merged.compxsMetadata
    keys = set(om["meta"]["data"])
    for s in ordered:
        keys |= set(s.obs["meta"]["data"])
    for k in sorted(keys):
        hv = om["meta"]["data"].get(k)
        if k == "numComps":
            if hv != ("i", total):
                rec.violation("compxs-merge/file-metadata-differs/numComps", "numComps %s after merging %s regions" % (short(hv), total), witness)
        elif k == "numFissComps":
            want = sum(int(s.master.compxsMetadata[k]) for s in ordered)
            if hv is None or hv[1] != want:
                rec.violation("compxs-merge/file-metadata-differs/numFissComps", "numFissComps %s, sum over the sources %d" % (short(hv), want), witness)
        elif k in CX_VECTORS:
            want = np.concatenate([s.vectors[k] for s in ordered])
            got = None if md[k] is None else np.asarray(md[k])
            if got is None or got.shape != want.shape or got.tolist() != want.tolist():
                try:
                    added = got is not None and len(ordered) > 1 and got.tolist() == np.asarray(sum(np.asarray(s.vectors[k]) for s in ordered)).tolist()
                except ValueError:
                    added = False
                rec.violation("compxs-merge/per-region-metadata/%s" % ("added-elementwise-instead-of-concatenated" if added else "differs"),
                              "%s holds one value per region; merged %s, sources in merge order %s" % (k, None if got is None else got.tolist()[:12], want.tolist()[:12]),
                              dict(witness, key=k, merged=None if got is None else got.tolist(), sources=[s.vectors[k].tolist() for s in ordered]))
        else:
            vals = [s.obs["meta"]["data"][k] for s in ordered if k in s.obs["meta"]["data"]]
            if not vals:
                rec.violation("compxs-merge/file-metadata-from-nowhere/%s" % k, "metadata %s appeared" % k, witness)
            elif any(v != vals[0] for v in vals):
                raise AssertionError("harness: legal COMPXS set with conflicting metadata %s" % k)
            elif hv != vals[0]:
                rec.violation("compxs-merge/file-metadata-differs/%s" % k, "metadata %s = %s, sources have %s" % (k, short(hv), short(vals[0])), witness)
    wantFiles = sorted(f for s in ordered for f in s.obs["meta"]["fileNames"])
    if sorted(om["meta"]["fileNames"]) != wantFiles:
        rec.violation("compxs-merge/fileNames-not-union", "fileNames %s, sources %s" % (sorted(om["meta"]["fileNames"]), wantFiles), witness)
    # order-free content: the multiset of regions
    return sorted(repr((r["metadata"], r["macros"])) for r in om["regions"].values())


def cx_changes(before, after):
    ch = []
    if before["labels"] != after["labels"] or before["dictLabels"] != after["dictLabels"]:
        ch.append("regions")
    if before["props"] != after["props"]:
        ch.append("properties")
    if before["meta"] != after["meta"]:
        ch.append("library-metadata")
    if any(after["regions"].get(k) != v for k, v in before["regions"].items()):
        ch.append("existing-region-modified")
    return ch


def do_compxs(spec, rec):
    from armi.nuclearDataIO import xsLibraries
    from armi.nuclearDataIO.cccc import compxs

    base = spec["rng"]
    fixPath = os.path.join(os.environ.get("VERIF_REPO", "/repo"), "armi", "tests", "COMPXS.ascii")
    fixture = CxSource({"fixture": "COMPXS.ascii"}, compxs.readAscii, fixPath)
    fixFam = {"ng": 11, "bounds": np.asarray(fixture.master.neutronEnergyUpperBounds).tolist(), "vel": np.asarray(fixture.master.neutronVelocity).tolist(),
              "emin": fixture.master.compxsMetadata["minimumNeutronEnergy"], "maxUp": fixture.master.compxsMetadata["maxUpScatterGroups"],
              "maxOrd": fixture.master.compxsMetadata["maxScatteringOrder"]}
    for i in range(spec["n"]):
        rng = random.Random("%s:%d" % (base, i))
        withFixture = i % 5 == 0
        fam = dict(fixFam) if withFixture else gen_cx_family(rng)
        m = rng.choice([2, 2, 3, 3, 4])
        same = rng.random() < 0.5
        n0 = 3 if withFixture else rng.randint(1, 4)
        sameVel = rng.random() < 0.7
        specs = [{"nreg": n0 if same else rng.randint(1, 4), "vseed": "x%d.%d/%d" % (i, j, rng.getrandbits(40)), "sameVelocity": sameVel or j == 0}
                 for j in range(m - (1 if withFixture else 0))]
        try:
            sources = [make_cx_source(s_, fam) for s_ in specs]
        except Exception as e:
            rec.crash("compxs-write-read-generated", e, {"case": i, "family": fam, "libs": specs})
            continue
        if withFixture:
            sources.insert(rng.randrange(len(sources) + 1), fixture)
        witness = {"case": i, "family": fam, "libs": [s_.spec for s_ in sources], "regions": [s_.nreg for s_ in sources]}
        sig = ["compxs", fam["ng"], fam["maxOrd"], [s_.nreg for s_ in sources], [s_.spec.get("vseed", "fixture") for s_ in sources]]
        ref = None
        for pi, perm in enumerate(itertools.permutations(range(len(sources)))):
            intoEmpty = pi % 2 == 0
            w = dict(witness, order=list(perm), intoEmpty=intoEmpty)
            ordered = [sources[j] for j in perm]
            target = xsLibraries.CompxsLibrary() if intoEmpty else ordered[0].fresh()
            done = 0 if intoEmpty else 1
            failed = False
            for s_ in ordered[done:]:
                before = obs_compxs(target)
                tv = target.compxsMetadata["fissionWattSeconds"]
                tlen = None if tv is None else len(np.atleast_1d(tv))
                try:
                    target.merge(s_.fresh())
                except Exception as e:  # a legal set must merge
                    failed = True
                    if isinstance(e, ValueError) and "broadcast" in str(e) and tlen not in (None, s_.nreg):
                        rec.violation("compxs-merge/legal-set-refused/per-region-metadata-added-elementwise/ValueError",
                                      "legal COMPXS merge raises ValueError (%s): the per-region metadata vectors (length %d in the target holding %d regions, %d in the "
                                      "merged-in library) are added elementwise" % (str(e)[:90], tlen, len(before["labels"]), s_.nreg), w)
                    else:
                        rec.crash("compxs-merge-legal-set", e, w)
                    rec.hit("compxs.unchanged-check")
                    ch = cx_changes(before, obs_compxs(target))
                    if ch:
                        rec.violation("compxs-merge/refused-but-target-changed/%s" % "+".join(ch), "COMPXS merge raised %s and the target changed: %s" % (type(e).__name__, ch), w)
                    break
                done += 1
            if not failed:
                rec.hit("compxs.order")
                can = check_cx_merged(rec, target, ordered, w)
                if ref is None:
                    ref = can
                else:
                    rec.hit("compxs.order-independence")
                    if can != ref:
                        rec.violation("compxs-merge/order-dependent/regions", "the multiset of merged regions depends on the merge order", w)
            rec.case([sig, list(perm), intoEmpty], nontrivial=len(sources) >= 2, sample=dict(w, merged_regions=len(target)) if i < 2 and pi == 0 else None)
        # conflicts: another group structure must be refused and leave the target as it was
        for how in ("count", "value", "ulp", "metadata"):
            xfam = dict(fam)
            if how == "count":
                f2 = gen_cx_family(rng, ng=rng.choice([g for g in range(1, 7) if g != fam["ng"]]))
                xfam.update(ng=f2["ng"], bounds=f2["bounds"], vel=f2["vel"])
            elif how == "metadata":
                key = rng.choice(["maxOrd", "emin"])
                xfam[key] = fam["maxOrd"] + 1 if key == "maxOrd" else f32(fam["emin"] + 1.0)
            else:
                nb = list(fam["bounds"])
                j = rng.randrange(len(nb))
                nb[j] = float(np.nextafter(np.float32(nb[j]), np.float32(0))) if how == "ulp" else f32(nb[j] * 0.999)
                if nb[j] == fam["bounds"][j]:
                    nb[j] = nb[j] * 0.999
                xfam["bounds"] = nb
            xspec = {"nreg": rng.randint(1, 3), "vseed": "x%d.c%s/%d" % (i, how, rng.getrandbits(40)), "sameVelocity": True}
            w = dict(witness, conflict=how, offender=xspec, offender_family_changes={k: v for k, v in xfam.items() if fam.get(k) != v})
            try:
                offender = make_cx_source(xspec, xfam).fresh()
                target = sources[0].fresh()
                if rng.random() < 0.5 and len(sources) > 1 and sources[1].nreg == sources[0].nreg:
                    target.merge(sources[1].fresh())
            except Exception as e:
                rec.crash("compxs-conflict-setup", e, w)
                continue
            before = obs_compxs(target)
            try:
                target.merge(offender)
            except Exception as e:
                rec.hit("compxs.conflict.refused")
                rec.hit("compxs.conflict.refused/%s" % ("group-structure" if how != "metadata" else "file-metadata"))
                rec.reject("compxs %s conflict refused with %s" % (how, type(e).__name__))
                rec.hit("compxs.unchanged-check")
                ch = cx_changes(before, obs_compxs(target))
                if ch:
                    rec.violation("compxs-merge/refused-but-target-changed/%s" % "+".join(ch), "COMPXS merge refused (%s) but the target changed: %s" % (type(e).__name__, ch), w)
            else:
                if how == "metadata":
                    rec.skip("compxs file-metadata difference accepted by armi (not a conflict the property names)")
                else:
                    rec.violation("compxs-merge/conflict-silently-merged/group-structure", "a COMPXS library with another group structure (%s) was merged without an error" % how, w)
            rec.case(["compxs-conflict", how, sig], sample=w if i < 1 else None)
        _cleanup()


# ============================================================================= fixtures
def fixture_sources():
    _io()
    out = []
    for kind, fn in FIXTURES:
        s = Source({"fixture": fn, "kind": kind}, path=os.path.join(FIXDIR, fn), kind=kind, rereadEvery=5)
        s.master = s.fresh()
        s.obs = obs(s.master)
        out.append(s)
    return out


def do_fixmerge(spec, rec):
    rng = random.Random(spec["rng"])
    srcs = fixture_sources()
    names = [fn for _, fn in FIXTURES]
    subsets = [c for k in (2, 3) for c in itertools.combinations(range(6), k)]
    big = [c for k in (4, 5) for c in itertools.combinations(range(6), k)]
    rng.shuffle(big)
    for sub in subsets + big[: spec["big"]]:
        sources = [srcs[j] for j in sub]
        perms = list(itertools.permutations(range(len(sub))))
        if len(perms) > 120:
            perms = rng.sample(perms, 120)
        witness = {"fixtures": [names[j] for j in sub]}
        run_orders(rec, sources, witness, ["fixture-merge", [names[j] for j in sub]], perms, hitname="fixture.order", sampleFirst=sub == (0, 1))
    # the production path: mergeXSLibrariesInWorkingDirectory on private copies (it rewrites files to add dummy nuclides)
    import shutil

    from armi.nuclearDataIO import xsLibraries

    work = os.path.abspath("fixture-copy")
    os.makedirs(work, exist_ok=True)
    for _, fn in FIXTURES:
        shutil.copy(os.path.join(FIXDIR, fn), os.path.join(work, fn))
    for gam in (False, True):
        lib = xsLibraries.IsotxsLibrary()
        w = {"call": "mergeXSLibrariesInWorkingDirectory", "mergeGammaLibs": gam}
        try:
            xsLibraries.mergeXSLibrariesInWorkingDirectory(lib, xsLibrarySuffix="", mergeGammaLibs=gam, alternateDirectory=work)
        except Exception as e:
            rec.crash("mergeXSLibrariesInWorkingDirectory", e, w)
            continue
        # the files as they are now on disk (possibly rewritten with dummy nuclides) are the sources of what was merged
        sources = []
        for kind, fn in FIXTURES:
            if kind != "isotxs" and not gam:
                continue
            s = Source({"fixture": fn}, path=os.path.join(work, fn), kind=kind)
            s.master = s.fresh()
            s.obs = obs(s.master)
            sources.append(s)
        rec.hit("fixture.order")
        check_merged(rec, lib, sources, w)
        rec.case(["fixture-workdir-merge", gam], sample=dict(w, labels=len(lib)))


def do_fixconflict(spec, rec):
    """The conflicts of the design note on the real files: clash positions, group structures, pre-merged offenders."""
    import copy as _copy

    from armi.nuclearDataIO import xsLibraries

    srcs = fixture_sources()
    byName = {fn: s for (_, fn), s in zip(FIXTURES, srcs)}

    def one(name, targetParts, offenderBuilder, conflict, detail):
        w = {"target": targetParts, "conflict": conflict, "detail": detail}
        try:
            target = xsLibraries.IsotxsLibrary()
            for fn in targetParts:
                target.merge(byName[fn].fresh())
            offender = offenderBuilder()
        except Exception as e:
            rec.crash("fixture-conflict-setup", e, w)
            return
        before = obs(target)
        outcome, changes = judge_refusal(rec, target, offender, before, conflict, w, hit="fixture")
        rec.hit("fixture.conflict")
        rec.case(["fixture-conflict", name], sample=dict(w, outcome=outcome, changed=sorted(changes), labels_before=len(before["labels"]), labels_after=len(target)))

    def aaPlusClash(pos):
        def build():
            other = byName["ISOAA"].fresh()
            clash = _copy.deepcopy(byName["ISOAB"].master["U235AB"])
            if pos == "last":
                other["U235AB"] = clash
                return other
            lib = xsLibraries.IsotxsLibrary()
            donor = byName["ISOAB"].fresh()
            keep = "U235AB"
            for k in list(donor.nuclideLabels):
                if k != keep:
                    del donor[k]
            lib.merge(donor)  # U235AB first
            lib.merge(other)
            return lib
        return build

    one("AB<-AA+U235AB(last)", ["ISOAB"], aaPlusClash("last"), "same-label-same-kind", "isotxs/last/identical")
    one("AB<-U235AB(first)+AA", ["ISOAB"], aaPlusClash("first"), "same-label-same-kind", "isotxs/first/identical")
    one("AA<-AA", ["ISOAA"], lambda: byName["ISOAA"].fresh(), "same-label-same-kind", "isotxs/all/identical")
    one("AA+gam<-AA.gamiso", ["ISOAA", "AA.gamiso"], lambda: byName["AA.gamiso"].fresh(), "same-label-same-kind", "gamiso/all/identical")
    one("AA+pm<-AA.pmatrx", ["ISOAA", "AA.pmatrx"], lambda: byName["AA.pmatrx"].fresh(), "same-label-same-kind", "pmatrx/all/identical")

    def premerged():
        lib = xsLibraries.IsotxsLibrary()
        lib.merge(byName["ISOAA"].fresh())
        lib.merge(byName["AA.gamiso"].fresh())
        return lib

    one("AA<-(AA+AA.gamiso)", ["ISOAA"], premerged, "same-label-same-kind/premerged", "isotxs-again+gamiso")

    def bounds(kind):
        def build():
            lib = byName["ISOAB" if kind == "n" else "AB.gamiso"].fresh()
            arr = lib._neutronEnergyUpperBounds if kind == "n" else lib._gammaEnergyUpperBounds
            arr[3] = arr[3] * 1.01
            return lib
        return build

    one("AA<-AB(other neutron bounds)", ["ISOAA"], bounds("n"), "neutron-bounds", "isotxs/value")
    one("AA.gamiso<-AB.gamiso(other gamma bounds)", ["AA.gamiso"], bounds("g"), "gamma-bounds", "gamiso/value")

    def pmGamma():
        lib = byName["AB.pmatrx"].fresh()
        lib._gammaEnergyUpperBounds[0] *= 1.01
        return lib

    one("AA.gamiso<-AB.pmatrx(other gamma bounds)", ["AA.gamiso"], pmGamma, "gamma-bounds", "pmatrx/value")


def do_fixmacro(spec, rec):
    from armi.nuclearDataIO import xsLibraries

    srcs = fixture_sources()
    base = spec["rng"]
    lib = xsLibraries.IsotxsLibrary()
    for s in srcs:
        lib.merge(s.fresh())
    for suffix in ("AA", "AB"):
        table = micro_table(lib, suffix)
        for i in range(spec["n"]):
            rng = random.Random("%s:%s:%d" % (base, suffix, i))
            w = {"fixtures": "all six merged", "suffix": suffix, "case": i}
            n1, n2 = judge_macros(rec, rng, lib, suffix, table, w, haveGamma=True, havePmatrx=True)
            rec.hit("fixture.macro")
            rec.case(["fixture-macro", suffix, sorted(n1), sorted(n2)], sample=dict(w, N1=n1) if i == 0 else None)
    judge_total_scatter(rec, lib, {"fixtures": "all six merged"})
