"""Per-property claims live in tools/checks.json (append entries there).  A property without an entry is listed under
not_applicable (not yet claimed)."""
import json
import os

ROOT = os.path.dirname(os.path.dirname(os.path.abspath(__file__)))
_d = json.load(open(os.path.join(ROOT, "tools", "checks.json")))
NOTE = _d["note"]
CHECKS = sorted(_d["checks"], key=lambda c: c["property_id"])
_claimed = {c["property_id"] for c in CHECKS}
NOT_APPLICABLE = []
for line in open(os.path.join(ROOT, "properties.jsonl")):
    p = json.loads(line)
    if p["id"] not in _claimed:
        NOT_APPLICABLE.append({"property_id": p["id"], "reason": "not claimed yet: the runtime-monitoring check for this property is still being built (see DESIGN.md section 4); the technique applies"})
